------------------------------- MODULE Contract -------------------------------
(***************************************************************************)
(* The error contract of the public interface (property C13), as a table.  *)
(* Written from the headers: constructors validate their parameters and    *)
(* throw GeographicErr; ordinary members never throw on NaN and return NaN *)
(* for every output that depends on the NaN argument (valid values for the *)
(* others); functions documented to validate throw GeographicErr only and  *)
(* leave their outputs untouched; nothing crashes.                          *)
(*                                                                          *)
(* An entry: n name, k kind ("ctor" | "member" | "validating"), a sorts of  *)
(* the arguments, o number of outputs.  One argument of a nominal call is   *)
(* replaced by a special value class.                                       *)
(***************************************************************************)
EXTENDS Integers, Sequences, FiniteSets

Classes == {"nan", "pinf", "ninf", "pzero", "nzero", "denorm", "tiny", "one", "neg", "huge", "max",
            "p90", "n90", "p180", "n180", "p90u", "n90u"}

Entries == <<
  [n |-> "Geodesic.ctor", k |-> "ctor", a |-> <<"a", "f">>, o |-> 0],
  [n |-> "GeodesicExact.ctor", k |-> "ctor", a |-> <<"a", "f">>, o |-> 0],
  [n |-> "Rhumb.ctor", k |-> "ctor", a |-> <<"a", "f">>, o |-> 0],
  [n |-> "Ellipsoid.ctor", k |-> "ctor", a |-> <<"a", "f">>, o |-> 0],
  [n |-> "AuxLatitude.ctor", k |-> "ctor", a |-> <<"a", "f">>, o |-> 0],
  [n |-> "Geocentric.ctor", k |-> "ctor", a |-> <<"a", "f">>, o |-> 0],
  [n |-> "TransverseMercator.ctor", k |-> "ctor", a |-> <<"a", "f", "k0">>, o |-> 0],
  [n |-> "TransverseMercatorExact.ctor", k |-> "ctor", a |-> <<"a", "fpos", "k0">>, o |-> 0],
  [n |-> "PolarStereographic.ctor", k |-> "ctor", a |-> <<"a", "f", "k0">>, o |-> 0],
  [n |-> "LambertConformalConic.ctor1", k |-> "ctor", a |-> <<"a", "f", "stdlat", "k0">>, o |-> 0],
  [n |-> "LambertConformalConic.ctor2", k |-> "ctor", a |-> <<"a", "f", "stdlat", "stdlat", "k0">>, o |-> 0],
  [n |-> "AlbersEqualArea.ctor1", k |-> "ctor", a |-> <<"a", "f", "stdlat", "k0">>, o |-> 0],
  [n |-> "AlbersEqualArea.ctor2", k |-> "ctor", a |-> <<"a", "f", "stdlat", "stdlat", "k0">>, o |-> 0],
  [n |-> "NormalGravity.ctor", k |-> "ctor", a |-> <<"a", "gm", "omega", "f">>, o |-> 0],
  [n |-> "EllipticFunction.ctor", k |-> "ctor", a |-> <<"k2", "k2">>, o |-> 0],
  [n |-> "GeodesicLine.ctor", k |-> "nothrow", a |-> <<"num", "num", "num">>, o |-> 0],
  [n |-> "Geodesic.Direct", k |-> "member", a |-> <<"num", "num", "num", "num">>, o |-> 7],
  [n |-> "Geodesic.ArcDirect", k |-> "member", a |-> <<"num", "num", "num", "num">>, o |-> 8],
  [n |-> "Geodesic.Inverse", k |-> "member", a |-> <<"num", "num", "num", "num">>, o |-> 7],
  [n |-> "GeodesicExact.Direct", k |-> "member", a |-> <<"num", "num", "num", "num">>, o |-> 7],
  [n |-> "GeodesicExact.Inverse", k |-> "member", a |-> <<"num", "num", "num", "num">>, o |-> 7],
  [n |-> "GeodesicLine.Position", k |-> "member", a |-> <<"num">>, o |-> 7],
  [n |-> "Rhumb.Direct", k |-> "member", a |-> <<"num", "num", "num", "num">>, o |-> 3],
  [n |-> "Rhumb.Inverse", k |-> "member", a |-> <<"num", "num", "num", "num">>, o |-> 3],
  [n |-> "TransverseMercator.Forward", k |-> "member", a |-> <<"num", "num", "num">>, o |-> 4],
  [n |-> "TransverseMercator.Reverse", k |-> "member", a |-> <<"num", "num", "num">>, o |-> 4],
  [n |-> "TransverseMercatorExact.Forward", k |-> "member", a |-> <<"num", "num", "num">>, o |-> 4],
  [n |-> "TransverseMercatorExact.Reverse", k |-> "member", a |-> <<"num", "num", "num">>, o |-> 4],
  [n |-> "PolarStereographic.Forward", k |-> "member", a |-> <<"num", "num">>, o |-> 4],
  [n |-> "PolarStereographic.Reverse", k |-> "member", a |-> <<"num", "num">>, o |-> 4],
  [n |-> "LambertConformalConic.Forward", k |-> "member", a |-> <<"num", "num", "num">>, o |-> 4],
  [n |-> "LambertConformalConic.Reverse", k |-> "member", a |-> <<"num", "num", "num">>, o |-> 4],
  [n |-> "AlbersEqualArea.Forward", k |-> "member", a |-> <<"num", "num", "num">>, o |-> 4],
  [n |-> "AlbersEqualArea.Reverse", k |-> "member", a |-> <<"num", "num", "num">>, o |-> 4],
  [n |-> "Geocentric.Forward", k |-> "member", a |-> <<"num", "num", "num">>, o |-> 3],
  [n |-> "Geocentric.Reverse", k |-> "member", a |-> <<"num", "num", "num">>, o |-> 3],
  [n |-> "LocalCartesian.Forward", k |-> "member", a |-> <<"num", "num", "num">>, o |-> 3],
  [n |-> "LocalCartesian.Reverse", k |-> "member", a |-> <<"num", "num", "num">>, o |-> 3],
  [n |-> "Ellipsoid.lats", k |-> "member", a |-> <<"num">>, o |-> 6],
  [n |-> "Ellipsoid.measures", k |-> "member", a |-> <<"num">>, o |-> 5],
  [n |-> "AuxLatitude.Convert", k |-> "member", a |-> <<"num">>, o |-> 2],
  [n |-> "EllipticFunction.funcs", k |-> "member", a |-> <<"num">>, o |-> 5],
  [n |-> "EllipticFunction.sncndn", k |-> "member", a |-> <<"num">>, o |-> 3],
  [n |-> "EllipticFunction.Carlson", k |-> "member", a |-> <<"num", "num", "num">>, o |-> 4],
  [n |-> "EllipticFunction.Carlson2", k |-> "member", a |-> <<"num", "num">>, o |-> 3],
  [n |-> "NormalGravity.Gravity", k |-> "member", a |-> <<"num", "num">>, o |-> 3],
  [n |-> "NormalGravity.U", k |-> "member", a |-> <<"num", "num", "num">>, o |-> 4],
  [n |-> "Math.angles", k |-> "member", a |-> <<"num">>, o |-> 6],
  [n |-> "Math.AngDiff", k |-> "member", a |-> <<"num", "num">>, o |-> 2],
  [n |-> "Math.atan2d", k |-> "member", a |-> <<"num", "num">>, o |-> 1],
  [n |-> "Math.taupf", k |-> "member", a |-> <<"num">>, o |-> 2],
  [n |-> "AzimuthalEquidistant.Forward", k |-> "member", a |-> <<"num", "num", "num", "num">>, o |-> 4],
  [n |-> "AzimuthalEquidistant.Reverse", k |-> "member", a |-> <<"num", "num", "num", "num">>, o |-> 4],
  [n |-> "Gnomonic.Forward", k |-> "member", a |-> <<"num", "num", "num", "num">>, o |-> 4],
  [n |-> "Gnomonic.Reverse", k |-> "member", a |-> <<"num", "num", "num", "num">>, o |-> 4],
  [n |-> "CassiniSoldner.Forward", k |-> "member", a |-> <<"num", "num">>, o |-> 4],
  [n |-> "CassiniSoldner.Reverse", k |-> "member", a |-> <<"num", "num">>, o |-> 4],
  [n |-> "Intersect.Closest", k |-> "member", a |-> <<"num", "num", "num", "num", "num", "num">>, o |-> 2],
  [n |-> "PolygonArea.AddPoint", k |-> "member", a |-> <<"num", "num">>, o |-> 2],
  [n |-> "UTMUPS.Forward", k |-> "validating", a |-> <<"lat", "num">>, o |-> 4],
  [n |-> "UTMUPS.Reverse", k |-> "validating", a |-> <<"num", "num">>, o |-> 4],
  [n |-> "MGRS.Forward", k |-> "validating", a |-> <<"num", "num">>, o |-> 1],
  [n |-> "OSGB.Forward", k |-> "validating", a |-> <<"num", "num">>, o |-> 4],
  [n |-> "OSGB.GridReference", k |-> "validating", a |-> <<"num", "num">>, o |-> 1],
  [n |-> "Geohash.Forward", k |-> "validating", a |-> <<"lat", "num">>, o |-> 1],
  [n |-> "GARS.Forward", k |-> "validating", a |-> <<"lat", "num">>, o |-> 1],
  [n |-> "Georef.Forward", k |-> "validating", a |-> <<"lat", "num">>, o |-> 1],
  [n |-> "GeoCoords.Reset", k |-> "validating", a |-> <<"lat", "num">>, o |-> 2],
  [n |-> "DMS.Encode", k |-> "validating", a |-> <<"num">>, o |-> 1],
  [n |-> "LambertConformalConic.SetScale", k |-> "validating", a |-> <<"lat", "k0">>, o |-> 1],
  [n |-> "PolarStereographic.SetScale", k |-> "validating", a |-> <<"lat", "k0">>, o |-> 1],
  [n |-> "GeodesicLine.ArcPosition", k |-> "member", a |-> <<"num">>, o |-> 8],
  [n |-> "GeodesicLineExact.Position", k |-> "member", a |-> <<"num">>, o |-> 7],
  [n |-> "Geodesic.InverseLine", k |-> "member", a |-> <<"num", "num", "num", "num">>, o |-> 3],
  [n |-> "Geodesic.DirectLine", k |-> "member", a |-> <<"num", "num", "num", "num">>, o |-> 3],
  [n |-> "GeodesicExact.InverseLine", k |-> "member", a |-> <<"num", "num", "num", "num">>, o |-> 3],
  [n |-> "RhumbLine.Position", k |-> "member", a |-> <<"num">>, o |-> 3],
  [n |-> "Rhumb.Line", k |-> "member", a |-> <<"num", "num", "num">>, o |-> 3],
  [n |-> "PolygonArea.AddEdge", k |-> "member", a |-> <<"num", "num">>, o |-> 2],
  [n |-> "PolygonArea.TestPoint", k |-> "member", a |-> <<"num", "num">>, o |-> 2],
  [n |-> "PolygonArea.TestEdge", k |-> "member", a |-> <<"num", "num">>, o |-> 2],
  [n |-> "PolygonAreaExact.AddPoint", k |-> "member", a |-> <<"num", "num">>, o |-> 2],
  [n |-> "PolygonAreaRhumb.AddPoint", k |-> "member", a |-> <<"num", "num">>, o |-> 2],
  [n |-> "PolygonAreaRhumb.AddEdge", k |-> "member", a |-> <<"num", "num">>, o |-> 2],
  [n |-> "Intersect.Next", k |-> "member", a |-> <<"num", "num", "num", "num">>, o |-> 2],
  [n |-> "Intersect.Segment", k |-> "member", a |-> <<"num", "num", "num", "num", "num", "num", "num", "num">>, o |-> 2],
  [n |-> "Intersect.All", k |-> "validating", a |-> <<"num", "num", "num", "num", "num", "num", "num">>, o |-> 1],
  [n |-> "Geoid.eval", k |-> "member", a |-> <<"num", "num">>, o |-> 2],
  [n |-> "Geoid.ConvertHeight", k |-> "member", a |-> <<"num", "num", "num">>, o |-> 1],
  [n |-> "Geoid.CacheArea", k |-> "validating", a |-> <<"num", "num", "num", "num">>, o |-> 1],
  [n |-> "MagneticModel.eval", k |-> "member", a |-> <<"num", "num", "num", "num">>, o |-> 6],
  [n |-> "MagneticModel.Circle", k |-> "member", a |-> <<"num", "num", "num">>, o |-> 3],
  [n |-> "MagneticCircle.eval", k |-> "member", a |-> <<"num">>, o |-> 6],
  [n |-> "MagneticModel.FieldComponents", k |-> "member", a |-> <<"num", "num", "num">>, o |-> 4],
  [n |-> "GravityModel.Gravity", k |-> "member", a |-> <<"num", "num", "num">>, o |-> 4],
  [n |-> "GravityModel.Disturbance", k |-> "member", a |-> <<"num", "num", "num">>, o |-> 4],
  [n |-> "GravityModel.GeoidHeight", k |-> "member", a |-> <<"num", "num">>, o |-> 1],
  [n |-> "GravityModel.SphericalAnomaly", k |-> "member", a |-> <<"num", "num", "num">>, o |-> 3],
  [n |-> "GravityModel.W", k |-> "member", a |-> <<"num", "num", "num">>, o |-> 4],
  [n |-> "GravityModel.T", k |-> "member", a |-> <<"num", "num", "num">>, o |-> 4],
  [n |-> "GravityModel.Circle", k |-> "member", a |-> <<"num", "num">>, o |-> 3],
  [n |-> "GravityCircle.eval", k |-> "member", a |-> <<"num">>, o |-> 5],
  [n |-> "SphericalHarmonic.eval", k |-> "member", a |-> <<"num", "num", "num">>, o |-> 4],
  [n |-> "NormalGravity.misc", k |-> "member", a |-> <<"num">>, o |-> 4],
  [n |-> "NormalGravity.J2ToFlattening", k |-> "member", a |-> <<"num", "num", "num", "num">>, o |-> 1],
  [n |-> "NormalGravity.FlatteningToJ2", k |-> "member", a |-> <<"num", "num", "num", "num">>, o |-> 1],
  [n |-> "UTMUPS.StandardZone", k |-> "validating", a |-> <<"num", "num">>, o |-> 1],
  [n |-> "UTMUPS.Transfer", k |-> "validating", a |-> <<"num", "num">>, o |-> 2],
  [n |-> "GeoCoords.ctorUTM", k |-> "validating", a |-> <<"num", "num">>, o |-> 2],
  [n |-> "Ellipsoid.invlats", k |-> "member", a |-> <<"num">>, o |-> 5],
  [n |-> "Ellipsoid.InverseIsometricLatitude", k |-> "member", a |-> <<"num">>, o |-> 1],
  [n |-> "DAuxLatitude.DConvert", k |-> "member", a |-> <<"num", "num">>, o |-> 2],
  [n |-> "Math.sincosde", k |-> "member", a |-> <<"num", "num">>, o |-> 2],
  [n |-> "Math.misc", k |-> "member", a |-> <<"num">>, o |-> 5],
  [n |-> "LocalCartesian.Reset", k |-> "member", a |-> <<"num", "num", "num">>, o |-> 3],
  [n |-> "CassiniSoldner.Reset", k |-> "member", a |-> <<"num", "num">>, o |-> 4],
  [n |-> "AlbersEqualArea.SetScale", k |-> "validating", a |-> <<"lat", "k0">>, o |-> 1],
  [n |-> "Geohash.Reverse", k |-> "validating", a |-> <<"lat", "num">>, o |-> 2],
  [n |-> "DMS.Encode3", k |-> "validating", a |-> <<"num">>, o |-> 1],
  [n |-> "DMS.EncodePrec", k |-> "validating", a |-> <<"num">>, o |-> 1],
  [n |-> "Utility.str", k |-> "validating", a |-> <<"num">>, o |-> 1],
  [n |-> "GeoCoords.reps", k |-> "validating", a |-> <<"lat", "num">>, o |-> 1],
  [n |-> "LambertConformalConic.ctor3", k |-> "ctor", a |-> <<"a", "f", "sinlat", "coslat", "sinlat", "coslat", "k0">>, o |-> 0],
  [n |-> "AlbersEqualArea.ctor3", k |-> "ctor", a |-> <<"a", "f", "sinlat", "coslat", "sinlat", "coslat", "k0">>, o |-> 0],
  [n |-> "Geodesic.ctorx", k |-> "ctor", a |-> <<"a", "f">>, o |-> 0],
  [n |-> "Rhumb.ctorx", k |-> "ctor", a |-> <<"a", "f">>, o |-> 0],
  [n |-> "TransverseMercator.ctorx", k |-> "ctor", a |-> <<"a", "fpos", "k0">>, o |-> 0],
  [n |-> "NormalGravity.ctorJ2", k |-> "ctor", a |-> <<"a", "gm", "omega", "j2">>, o |-> 0],
  [n |-> "EllipticFunction.ctor4", k |-> "ctor", a |-> <<"k2", "k2", "num", "num">>, o |-> 0],
  [n |-> "DAuxLatitude.ctor", k |-> "ctor", a |-> <<"a", "f">>, o |-> 0],
  [n |-> "LocalCartesian.ctor", k |-> "member", a |-> <<"num", "num", "num">>, o |-> 3],
  [n |-> "UTMUPS.TransferHemi", k |-> "validating", a |-> <<"num", "num", "hemi">>, o |-> 2],
  [n |-> "UTMUPS.TransferMatch", k |-> "validating", a |-> <<"num", "num", "hemi">>, o |-> 2],
  \* added after the mutation campaign: the transfer that stays in its zone (UPS -> UPS must refuse the other hemisphere; inside a UTM
  \* zone a change of hemisphere is legal), the MGRS overload with a latitude, the zone string of the zone of a position, the
  \* two-output overload of DMS::Encode, a magnetic model without constant terms
  [n |-> "UTMUPS.TransferSame", k |-> "validating", a |-> <<"num", "num", "hemi">>, o |-> 2],
  [n |-> "UTMUPS.TransferSameUTM", k |-> "validating", a |-> <<"num", "num", "num">>, o |-> 2],
  [n |-> "MGRS.ForwardLat", k |-> "validating", a |-> <<"num", "num", "num">>, o |-> 1],
  [n |-> "UTMUPS.EncodeZone", k |-> "validating", a |-> <<"num", "num">>, o |-> 1],
  [n |-> "DMS.Encode2", k |-> "validating", a |-> <<"num">>, o |-> 1],
  [n |-> "MagneticModel.eval10", k |-> "member", a |-> <<"num", "num", "num", "num">>, o |-> 6],
  [n |-> "MagneticModel.Circle10", k |-> "member", a |-> <<"num", "num", "num">>, o |-> 3] >>

(* ------------------------------------------------------------------------ *)
(* Is a value class acceptable for an argument sort?  "no": the call must    *)
(* throw GeographicErr;  "yes"/"any": it may succeed or throw GeographicErr. *)
(* ------------------------------------------------------------------------ *)
PosFinite == {"denorm", "tiny", "one", "huge", "max", "p90", "p180", "p90u"}
Invalid(sort, c) ==
  CASE sort = "a"      -> c \notin PosFinite                       \* equatorial radius: finite and positive
    [] sort = "k0"     -> c \notin PosFinite                       \* scale: finite and positive
    [] sort = "gm"     -> c \in {"nan", "pinf", "ninf"}    \* (no documented sign restriction)
    [] sort = "omega"  -> c \in {"nan", "pinf", "ninf"}
    [] sort = "f"      -> c \in {"nan", "pinf", "ninf", "one", "huge", "max", "p90", "p180", "p90u"}    \* finite and < 1
    [] sort = "fpos"   -> c \notin {"denorm", "tiny"}              \* exact transverse Mercator: 0 < f < 1
    [] sort = "stdlat" -> c \in {"nan", "pinf", "ninf", "huge", "max", "p180", "n180", "p90u", "n90u"}
    [] sort = "k2"     -> c \in {"pinf", "huge", "max", "p90", "p180", "p90u"}                         \* parameter <= 1 (NaN: not stated)
    [] sort = "sinlat" -> c \in {"nan", "pinf", "ninf", "huge", "max", "p90", "n90", "p180", "n180", "p90u", "n90u"}        \* a sine: |v| <= 1
    [] sort = "coslat" -> c \in {"nan", "pinf", "ninf", "neg", "huge", "max", "p90", "n90", "p180", "n180", "p90u", "n90u"} \* cosine of a latitude: 0 <= v <= 1
    [] sort = "j2"     -> c \in {"nan", "pinf", "ninf"}
    [] sort = "hemi"   -> c \in {"pzero", "nzero"}             \* flag argument: zero means the other hemisphere, which must be refused
    [] sort = "lat"    -> c \in {"pinf", "ninf", "huge", "max", "p180", "n180", "p90u", "n90u"}        \* documented latitude range
    [] OTHER -> FALSE

\* Dependencies of outputs on arguments: "yes" (output must be NaN when the argument is NaN), "no" (output must keep its nominal
\* value), "maybe" (the documentation does not settle it).  Default: every output depends on every argument.
Dep(name, pos, out) ==
  CASE name \in {"Geodesic.Direct", "GeodesicExact.Direct", "Geodesic.ArcDirect"} /\ pos = 2 -> IF out = 2 THEN "yes" ELSE "no"   \* lon1 only shifts lon2
    [] name = "Rhumb.Direct" /\ pos = 2 -> IF out = 2 THEN "yes" ELSE "no"
    [] name \in {"TransverseMercator.Reverse", "TransverseMercatorExact.Reverse", "LambertConformalConic.Reverse", "AlbersEqualArea.Reverse"}
         /\ pos = 1 -> IF out = 2 THEN "yes" ELSE "no"                                                    \* lon0 only shifts lon
    \* conic / azimuthal forward (lon0, lat, lon -> x, y, gamma, k): the scale depends on the latitude only, the convergence on the longitudes only
    [] name \in {"LambertConformalConic.Forward", "AlbersEqualArea.Forward"} /\ pos \in {1, 3} -> IF out = 4 THEN "no" ELSE "yes"
    [] name \in {"LambertConformalConic.Forward", "AlbersEqualArea.Forward"} /\ pos = 2 -> IF out = 3 THEN "no" ELSE "yes"
    [] name = "PolarStereographic.Forward" /\ pos = 1 -> IF out = 3 THEN "no" ELSE "yes"          \* (lat, lon): gamma = +-lon
    [] name = "PolarStereographic.Forward" /\ pos = 2 -> IF out = 4 THEN "no" ELSE "yes"
    \* projections centred at (lat0, lon0): lon0 only shifts the returned longitude
    [] name \in {"AzimuthalEquidistant.Reverse", "Gnomonic.Reverse"} /\ pos = 2 -> IF out = 2 THEN "yes" ELSE "no"
    \* geocentric: Z does not enter the longitude; the longitude does not enter Z
    [] name = "Geocentric.Reverse" /\ pos = 3 -> IF out = 2 THEN "no" ELSE "yes"
    [] name = "Geocentric.Forward" /\ pos = 2 -> IF out = 3 THEN "no" ELSE "yes"
    [] name \in {"Geodesic.DirectLine", "Rhumb.Line"} /\ pos = 2 -> IF out = 2 THEN "yes" ELSE "no"                  \* lon1 only shifts lon2
    [] name = "MagneticModel.FieldComponents" /\ pos = 3 -> IF out \in {1, 3} THEN "no" ELSE "yes"                \* Bz enters neither H nor D
    [] name = "CassiniSoldner.Reset" /\ pos = 1 -> IF out = 2 THEN "yes" ELSE "no"            \* lat0 only shifts the northing
    [] name \in {"MagneticModel.eval", "MagneticModel.eval10"} /\ pos = 1 /\ out >= 4 -> "maybe"                          \* the rates are piecewise constant in time
    [] name = "NormalGravity.misc" /\ out = 4 -> "no"                                                            \* d Phi / dY does not depend on X
    [] OTHER -> "default"

(* ------------------------------------------------------------------------ *)
(* NaN arguments of the functions that validate their arguments.  "Calling   *)
(* the class functions with NaNs as arguments is not an error; NaNs are      *)
(* returned as appropriate.  INV is treated as an invalid zone designation   *)
(* by UTMUPS.  INVALID is the corresponding invalid MGRS string (and         *)
(* similarly for GARS, Geohash, and Georef strings)" (GeographicLib.dox,     *)
(* organization).  Entry by entry, from the headers:                         *)
(*   MGRS::Forward     "If x or y is NaN or if zone is UTMUPS::INVALID, the   *)
(*                      returned MGRS string is "INVALID"" (the overload with *)
(*                      a latitude forwards to the same rule; a NaN latitude  *)
(*                      is a NaN argument of the same function)               *)
(*   OSGB::GridReference "If x or y is NaN, the returned grid reference is    *)
(*                      "INVALID""                                            *)
(*   Geohash::Forward  "If lat or lon is NaN, the returned geohash is         *)
(*                      "invalid""                                            *)
(*   GARS::Forward, Georef::Forward  "If lat or lon is NaN, then gars /       *)
(*                      georef is set to "INVALID""                           *)
(*   UTMUPS            INVALID = -4 is "a marker for an undefined or invalid  *)
(*                      zone.  Equivalent to NaN": the zone of a NaN position *)
(*                      (StandardZone, the zone output of Forward) is INVALID *)
(*                      and the coordinates, convergence and scale are NaN    *)
(*   UTMUPS::EncodeZone "zone may also be UTMUPS::INVALID, in which case the  *)
(*                      returned string is "inv""                             *)
(* s: string outputs (channel, bytes), z: integer outputs (channel, value),  *)
(* nan: real outputs that must be NaN.                                       *)
(* ------------------------------------------------------------------------ *)
W_INVALID == <<73, 78, 86, 65, 76, 73, 68>>       \* "INVALID"
W_invalid == <<105, 110, 118, 97, 108, 105, 100>> \* "invalid"
W_inv == <<105, 110, 118>>                        \* "inv"
ZoneINVALID == -4
NanDocumented == {"MGRS.Forward", "MGRS.ForwardLat", "OSGB.GridReference", "GARS.Forward", "Georef.Forward", "Geohash.Forward",
                  "UTMUPS.StandardZone", "UTMUPS.Forward", "UTMUPS.EncodeZone"}
NanDoc(name) ==
  CASE name \in {"MGRS.Forward", "MGRS.ForwardLat", "OSGB.GridReference", "GARS.Forward", "Georef.Forward"} ->
         [s |-> {<<1, W_INVALID>>}, z |-> {}, nan |-> {}]
    [] name = "Geohash.Forward" -> [s |-> {<<1, W_invalid>>}, z |-> {}, nan |-> {}]
    [] name = "UTMUPS.StandardZone" -> [s |-> {}, z |-> {<<1, ZoneINVALID>>}, nan |-> {}]
    [] name = "UTMUPS.Forward" -> [s |-> {}, z |-> {<<1, ZoneINVALID>>}, nan |-> {1, 2, 3, 4}]
    [] name = "UTMUPS.EncodeZone" -> [s |-> {<<1, W_inv>>}, z |-> {<<1, ZoneINVALID>>}, nan |-> {}]
    [] OTHER -> [s |-> {}, z |-> {}, nan |-> {}]

\* outcome predicate for one executed call
\*   out: "ok" | exception type;  nan[i], unt[i], same[i]: per output NaN / untouched / equal to the nominal call's value
\*   sv, iv: the string and integer outputs as the call left them (sunt, iunt: still the pre-filled value); bunt: the bool outputs
\*   kept both pre-set values
CallOK(e, pos, c, r) ==
  LET sort == e.a[pos] IN
  /\ r.nom = "ok"                                                   \* the nominal call itself works
  /\ r.out \in {"ok", "GeographicErr", "bad_alloc"}                 \* only the library's exception (or allocation failure)
  /\ (r.out # "ok" => \A i \in 1..e.o : r.unt[i] = 1)                \* a throwing call leaves its outputs exactly as they were
  /\ (r.out # "ok" => /\ \A i \in 1..Len(r.sunt) : r.sunt[i] = 1      \* ... also the strings, integers and bools
                      /\ \A i \in 1..Len(r.iunt) : r.iunt[i] = 1
                      /\ r.bunt = 1)
  /\ CASE e.k = "ctor" -> (Invalid(sort, c) => r.out = "GeographicErr")
       [] e.k = "nothrow" -> r.out = "ok"
       [] e.k = "member" ->
            (c = "nan" =>
               /\ r.out = "ok"
               /\ \A i \in 1..e.o :
                    LET d == Dep(e.n, pos, i) IN
                    CASE d \in {"yes", "default"} -> r.nan[i] = 1
                      [] d = "no" -> r.same[i] = 1
                      [] OTHER -> TRUE)
       [] e.k = "validating" ->
            /\ (Invalid(sort, c) => r.out = "GeographicErr")
            \* a NaN argument is not an error where the documentation says what it gives: the documented marker comes back
            /\ (c = "nan" /\ e.n \in NanDocumented =>
                  LET d == NanDoc(e.n) IN
                  /\ r.out = "ok"
                  /\ \A q \in d.s : r.sv[q[1]] = q[2]
                  /\ \A q \in d.z : r.iv[q[1]] = q[2]
                  /\ \A i \in d.nan : r.nan[i] = 1)
=============================================================================
