---------------------------- MODULE MC_UTMUPS ----------------------------
(* Lattice enumeration for UTMUPS (C04).  root -> chunk c -> vectors.        *)
EXTENDS UTMUPS, TLC, Json

CONSTANTS Stride, Part, NChunks
VARIABLE v

D3 == {-1, 0, 1}
B2 == {TRUE, FALSE}
InChunk(S, C) == {x \in S : x % NChunks = C}
Near(S, K) == {k + j : k \in K, j \in -1..1} \cap S
Sweep(lo, hi, crit) == {k \in lo..hi : k % Stride = 0} \cup Near(lo..hi, crit)

CritLat == {-90, -80, 0, 56, 64, 72, 84, 90}
CritLon == {-540, -360, -180, 0, 3, 6, 9, 12, 21, 33, 42, 180, 360, 540} \cup {6 * i : i \in -30..30}
LatAll == Sweep(-91, 91, CritLat)
LonAll == Sweep(-541, 541, CritLon)
LatFew == {-91, -90, -81, -80, -79, 0, 55, 56, 63, 64, 71, 72, 83, 84, 85, 90}
LonFew == {-181, -180, -179, -1, 0, 2, 3, 5, 6, 8, 9, 11, 12, 20, 21, 32, 33, 41, 42, 179, 180, 181, 359, 360, 363, -360, -357, 540}

VecSZ(C) ==
  \/ \E a \in InChunk(LatAll, C), da \in D3, b \in LonFew, s \in {-3, -2, -1} : v' = <<"sz", a, da, b, 0, s>>
  \/ \E b \in InChunk(LonAll, C), db \in D3, a \in LatFew, s \in {-2, -1} : v' = <<"sz", a, 0, b, db, s>>
  \/ \E a \in InChunk(LatFew, C), da \in D3, b \in LonFew, db \in D3, s \in {-2, -1} : v' = <<"sz", a, da, b, db, s>>
  \/ \E s \in InChunk(-7..63, C), a \in {-85, 10, 60, 88}, b \in {5, 100} : v' = <<"sz", a, 0, b, 1, s>>

FwdLat == {-90, -89, -81, -80, -79, -1, 0, 1, 55, 56, 71, 72, 83, 84, 85, 89, 90}
VecFwd(C) ==
  \/ \E b \in InChunk(LonFew, C), a \in FwdLat, da \in D3, s \in {-3, -2, -1, 0, 1, 30, 31, 32, 60}, m \in B2 :
        v' = <<"fwd", a, da, b, 0, s, m>>
  \/ \E a \in InChunk({-91, 91, 90, -90}, C), da \in D3, s \in {-1, 0, 31, 61, -5} : v' = <<"fwd", a, da, 7, 0, s, FALSE>>

\* grid coordinates in units of 50 km
XAll == Sweep(-4, 70, {0, 2, 14, 16, 18, 20, 24, 26, 54, 56, 64, 66})
YAll == Sweep(-190, 400, {-182, -180, 0, 18, 20, 190, 192, 200, 390, 392, 14, 16, 24, 26, 54, 56, 64, 66})
XFew == {-1, 0, 2, 10, 18, 20, 24, 26, 40, 54, 56, 64, 66}
YFew == {-183, -182, -180, 0, 18, 20, 26, 40, 54, 190, 192, 390, 392, 393}
VecRev(C) ==
  \/ \E x \in InChunk(XAll, C), dx \in D3, y \in YFew, z \in {0, 31}, n \in B2, m \in B2 : v' = <<"rev", z, n, x, dx, y, 0, m>>
  \/ \E y \in InChunk(YAll, C), dy \in D3, x \in XFew, z \in {0, 31}, n \in B2, m \in B2 : v' = <<"rev", z, n, x, 0, y, dy, m>>
  \/ \E z \in InChunk(-6..62, C), n \in B2, x \in {10, 40}, y \in {40, 100} : v' = <<"rev", z, n, x, 0, y, 0, FALSE>>

dg(i) == 48 + i
\* every one- and two-digit number string (the zone number is decimal: "08", "09" are zones 8 and 9), plus malformed ones
DigParts == {<<>>} \cup {<<dg(i)>> : i \in 0..9} \cup {<<dg(i), dg(j)>> : i \in 0..9, j \in 0..9}
            \cup {<<dg(0), dg(0), dg(1)>>, <<dg(0), dg(0), dg(8)>>, <<dg(0), dg(0), dg(9)>>,
             <<dg(0), dg(6), dg(0)>>, <<dg(0), dg(0), dg(6), dg(0)>>, <<43, dg(3)>>, <<45, dg(3)>>, <<32, dg(3)>>,
             <<dg(3), 32>>, <<dg(1), 101, dg(1)>>, <<dg(3), 46, dg(0)>>, <<48, 120, dg(3)>>, <<48, 120, dg(8)>>, <<48, 88, dg(3)>>,
             <<48, 111, dg(7)>>, <<48, 98, dg(1)>>}
Words == {<<>>, W_n, W_s, <<78>>, <<83>>, W_north, W_south, <<78, 111, 114, 116, 104>>, <<83, 79, 85, 84, 72>>,
          <<110, 111, 114, 116>>, <<115, 111, 117, 116>>, W_north \o <<115>>, <<120>>, <<101>>, <<80>>,
          W_inv, W_invalid, <<73, 78, 86>>, <<73, 110, 118>>, <<105, 110, 118, 97, 108, 105>>, W_invalid \o <<120>>,
          <<32, 110>>, <<110, 32>>, <<110, 0>>, <<0, 110>>, <<110, 110>>, <<200>>, <<110, 111>>}
VecStr(C) ==
  \/ C = 0 /\ \E d \in DigParts, w \in Words : v' = <<"zs", d \o w>>
  \/ C = 1 /\ \E z \in -6..62, n \in B2, a \in B2 : v' = <<"ze", z, n, a>>
  \/ \E e \in InChunk(32000..33000 \cup {-1, 0, 4326, 3857, 65535}, C) : v' = <<"epsgd", e>>
  \/ C = 2 /\ \E z \in -6..62, n \in B2 : v' = <<"epsge", z, n>>

\* Transfer lattice: the point (a+da ulp, b) expressed in zone sin (the UTM zone of the point or a neighbour; UPS near the
\* poles), optionally in the other hemisphere's convention, transferred to (zout, nout).  The last component is the zone
\* the specification expects (-99 when the point sits on a zone edge and several are admissible).
TrLat == {<<-90, 0>>, <<-85, 0>>, <<-81, 0>>, <<-80, -1>>, <<-80, 0>>, <<-79, 0>>, <<-1, 0>>, <<0, -1>>, <<0, 0>>, <<1, 0>>, <<40, 0>>,
          <<56, 0>>, <<60, 0>>, <<64, 0>>, <<72, 0>>, <<75, 0>>, <<83, 0>>, <<84, -1>>, <<84, 0>>, <<85, 0>>, <<90, 0>>}
TrLon == {-181, -180, -1, 0, 2, 3, 5, 6, 9, 11, 20, 21, 42, 179, 363, -357}
Wrap60(z) == ((z + 59) % 60) + 1
ZinOf(lat, b) ==
  LET u == StdZone(lat, <<b, 0>>, UTMZ)[2] IN
  IF lat[1] >= 86 \/ lat[1] <= -85 THEN {UPS}          \* beyond the UTM northing range: only UPS coordinates exist
  ELSE {Wrap60(u - 1), u, Wrap60(u + 1)} \cup (IF lat[1] >= 83 \/ lat[1] <= -79 THEN {UPS} ELSE {})
ZoutOf(zin) == {-5, INVALID, MATCH, UTMZ, STANDARD, UPS, 61, zin} \cup (IF zin > 0 THEN {Wrap60(zin + 1), Wrap60(zin - 1)} ELSE {31})
EzOf(zin, zout, lat, lon) ==
  LET Z == TransferZones(zin, zout, lat, lon) IN IF Cardinality(Z) = 1 THEN CHOOSE z \in Z : TRUE ELSE -99
VecTr(C) ==
  \E b \in InChunk(TrLon, C), lat \in TrLat, flip \in B2, nout \in B2 :
    \E zin \in ZinOf(lat, b) : \E zout \in ZoutOf(zin) :
      /\ (flip => zin > 0)
      /\ v' = <<"trl", lat[1], lat[2], b, zin, flip, zout, nout,
               IF zout < -4 \/ zout > 60 THEN -99 ELSE EzOf(zin, zout, lat, <<b, 0>>)>>

Init == v = <<"root">>
Next ==
  \/ v = <<"root">> /\ \E c \in 0..(NChunks - 1) : v' = <<"chunk", c>>
  \/ /\ v[1] = "chunk"
     /\ CASE Part = "sz" -> VecSZ(v[2])
          [] Part = "fwd" -> VecFwd(v[2]) \/ VecStr(v[2]) \/ VecTr(v[2])
          [] Part = "rev" -> VecRev(v[2])

(* ------------------------------ model invariants ------------------------- *)
SZInv ==
  v[1] = "sz" =>
    LET lat == <<v[2], v[3]>>  lon == <<v[4], v[5]>>  s == v[6]
        r == StdZone(lat, lon, s)
    IN IF s < -4 \/ s > 60 THEN r = <<"throw">>
       ELSE /\ r[1] = "ok" /\ r[2] \in (0..60) \cup {INVALID}
            /\ (s = UTMZ => r[2] \in 1..60)
            /\ (s \in {STANDARD, MATCH} => (r[2] = 0) = ~InUTMLat(lat))
            \* periodic in longitude; exactly the 6-degree zone except in bands V and X
            /\ StdZone(lat, <<lon[1] + 360, lon[2]>>, s) = r
            /\ (s = UTMZ /\ Band(lat) \notin {7, 9} => r[2] = ((LonDeg(lon) + 180) \div 6) + 1)
            \* the point lies within 12 degrees of the zone's central meridian, 6 outside V/X
            /\ (s = UTMZ => LET dl == ((LonDeg(lon) - CentralMeridian(r[2]) + 540) % 360) - 180
                            IN dl >= -9 /\ dl < 9 /\ (Band(lat) \notin {7, 9} => dl >= -3 /\ dl < 3))
            /\ (s = UTMZ /\ Band(lat) = 9 => r[2] \notin {32, 34, 36})

StrInv ==
  /\ v[1] = "ze" =>
       LET e == EncodeZone(v[2], v[3], v[4]) IN
       IF v[2] \in (0..60) \cup {INVALID}
       THEN e[1] = "ok" /\ DecodeZone(e[2]) = <<"ok", v[2], IF v[2] = INVALID THEN FALSE ELSE v[3]>>
       ELSE e = <<"throw">>
  /\ v[1] = "zs" =>
       LET r == DecodeZone(v[2]) IN
       r[1] = "ok" => /\ r[2] \in (0..60) \cup {INVALID}
                      /\ DecodeZone(EncodeZone(r[2], r[3], TRUE)[2]) = r
                      /\ DecodeZone(LowerS(v[2])) = r
  /\ v[1] = "epsgd" =>
       LET r == DecodeEPSG(v[2]) IN
       IF r[1] = INVALID THEN \A z \in 0..60, n \in B2 : EncodeEPSG(z, n) # v[2]
       ELSE EncodeEPSG(r[1], r[2]) = v[2]
  /\ v[1] = "epsge" =>
       LET e == EncodeEPSG(v[2], v[3]) IN
       IF v[2] \in 0..60 THEN DecodeEPSG(e) = <<v[2], v[3]>> ELSE e = -1

TrInv ==
  v[1] = "trl" /\ v[7] >= -4 /\ v[7] <= 60 =>
    LET lat == <<v[2], v[3]>>  lon == <<v[4], 0>>  zin == v[5]  zout == v[7]
        Z == TransferZones(zin, zout, lat, lon)
    IN /\ Z # {} /\ Z \subseteq (0..60) \cup {INVALID}
       /\ (zout >= 0 => Z = {zout})                      \* "this equals zoneout if zoneout >= 0"
       /\ (zout = MATCH => Z = {zin})
       /\ (zout = UTMZ => Z \subseteq 1..60)
       /\ Cardinality(Z) <= 4
       \* away from the degree lines that carry zone / UPS edges the zone is determined
       /\ (lon[1] % 3 # 0 /\ lat[1] \notin {-80, 84, 56, 64, 72} => Cardinality(Z) = 1)
       \* STANDARD differs from UTM only by the UPS substitution
       /\ (zout = STANDARD => Z \subseteq TransferZones(zin, UTMZ, lat, lon) \cup {UPS})

RevInv ==
  v[1] = "rev" =>
    LET r == Reverse(v[2], v[3], <<v[4], v[5]>>, <<v[6], v[7]>>, v[8]) IN
    /\ r[1] \in {"ok", "throw", "nan"}
    \* the MGRS rectangle is contained in the UTM/UPS rectangle
    /\ (v[8] /\ r[1] = "ok" => Reverse(v[2], v[3], <<v[4], v[5]>>, <<v[6], v[7]>>, FALSE)[1] = "ok")

Emit == v[1] \notin {"root", "chunk"} => PrintT(ToJson(v))
=============================================================================
