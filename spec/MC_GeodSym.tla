---------------------------- MODULE MC_GeodSym ----------------------------
(* Cayley graph of the symmetry group: words over {S, E, M} up to MaxLen.    *)
(* Homomorphism invariant: the output map reached by a word depends only on  *)
(* the group element (parities), i.e. the documented maps are consistent.    *)
EXTENDS GeodSym, TLC, Json
CONSTANT MaxLen
VARIABLE w
Init == w = <<>>
Next == Len(w) < MaxLen /\ \E g \in {"S", "E", "M"} : w' = Append(w, g)
Homomorphism == OfWord(w) = Canon(Count(w, "S") % 2, Count(w, "E") % 2, Count(w, "M") % 2)
Involution == \A g \in {"S", "E", "M"} : Compose(Gen(g), Gen(g)) = Id
Abelian == \A g, h \in {"S", "E", "M"} : Compose(Gen(g), Gen(h)) = Compose(Gen(h), Gen(g))
\* emit each group element once (words of length <= 3 in canonical order) with longitude shifts
Emit == (Len(w) <= 3 /\ w = SelectSeq(<<"S", "E", "M">>, LAMBDA g : Count(w, g) = 1) /\ Count(w, "S") <= 1 /\ Count(w, "E") <= 1 /\ Count(w, "M") <= 1)
          => PrintT(ToJson(<<"sym", OfWord(w)>>))
=============================================================================
