------------------------------- MODULE Elliptic -------------------------------
(***************************************************************************)
(* Elliptic integrals and functions (property C15), from                    *)
(* EllipticFunction.hpp: Legendre's K, E, D, Pi, G, H (complete and         *)
(* incomplete, with the periodic parts deltaX), Einv, Jacobi am, sn, cn,    *)
(* dn, and Carlson's R_F, R_C, R_G, R_J, R_D.                                *)
(*                                                                           *)
(* Parameters are dyadic numbers <<m, e>> = m * 2^e.  A modulus is given by *)
(* its complement kp2 (k2 = 1 - kp2 must be exact in a double, so that the  *)
(* 4-argument constructor's requirement k2 + kp2 = 1 holds); likewise        *)
(* alphap2.  Trace records carry residuals (unit 2^-53) against the          *)
(* defining integrals evaluated by quadrature in binary128.                  *)
(***************************************************************************)
EXTENDS AuxLat

Dy0(d) == d[1] = 0
DyPos(d) == d[1] > 0
\* floor(log2(m 2^e)) for m > 0
DyLog(d) == BitLen(d[1]) - 1 + d[2]
\* m 2^e compared with 1
DyCmp1(d) ==
  IF d[1] <= 0 THEN -1
  ELSE IF DyLog(d) < 0 THEN -1
  ELSE IF DyLog(d) > 0 THEN 1
  ELSE IF d[1] = Pow2(BitLen(d[1]) - 1) THEN 0 ELSE 1
\* the complement 1 - m 2^e is exactly representable with 53 bits (and the parameter is in the documented range:
\* kp2 >= 0, i.e. k2 <= 1)
ExactComplement(d) ==
  /\ d[1] >= 0
  /\ (d[1] > 0 => d[2] >= -53 /\ DyLog(d) <= 30 /\ BitLen(d[1]) <= 24)

\* parameter classes (complements): 0 and 1 are the special moduli; 2^-53 is the closest a double modulus gets to 1;
\* values above 1 give negative k2 / alpha2 down to -2^14 (the second eccentricity squared of b/a = 0.01 is 9999)
ParamClasses == {<<0, 0>>, <<1, 0>>, <<1, -1>>, <<1, -2>>, <<3, -2>>, <<1, -10>>, <<1, -30>>, <<1, -53>>,
                 <<3, -1>>, <<2, 0>>, <<11, 0>>, <<16385, 0>>}
ArgClasses == {<<0, 0>>, <<1, -40>>, <<1, -1>>, <<1, 0>>, <<3, -1>>, <<201, -7>>, <<13176794, -23>>, <<13176795, -23>>,
               <<2, 0>>, <<25, -3>>, <<201, -6>>, <<5, 0>>, <<10, 0>>, <<100, 0>>}
ArgFew == {<<0, 0>>, <<1, -40>>, <<1, 0>>, <<13176794, -23>>, <<13176795, -23>>, <<25, -3>>, <<10, 0>>}
CarlsonArgs == {<<0, 0>>, <<1, -300>>, <<1, -20>>, <<1, -2>>, <<1, 0>>, <<3, 0>>, <<1, 2>>, <<1, 20>>, <<1, 300>>}
CarlsonFew == {<<0, 0>>, <<1, -20>>, <<1, 0>>, <<3, 0>>, <<1, 20>>}

\* fn: 0 RF(x,y,z), 1 RF(x,y), 2 RC(x,y), 3 RG(x,y,z), 4 RG(x,y), 5 RJ(x,y,z,p), 6 RD(x,y,z).
\* Documented domains: RF, RG: at most one argument zero, the others positive; two-argument forms: both positive;
\* RC: x >= 0, y > 0; RJ: p > 0, at most one of x, y, z zero; RD: z > 0, at most one of x, y zero.
NZero(S) == Cardinality({i \in DOMAIN S : Dy0(S[i])})
RcDomain(fn, x, y, z, p) ==
  CASE fn = 0 \/ fn = 3 -> NZero(<<x, y, z>>) <= 1
    [] fn = 1 \/ fn = 4 -> DyPos(x) /\ DyPos(y)
    [] fn = 2 -> DyPos(y)
    [] fn = 5 -> DyPos(p) /\ NZero(<<x, y, z>>) <= 1
    [] fn = 6 -> DyPos(z) /\ NZero(<<x, y>>) <= 1
    [] OTHER -> FALSE

\* degenerate values: all arguments equal to 4^j (<<1, 2j>>):  RF = RC = 2^-j, RG = 2^j, RJ = RD = 2^-3j
AllEq4(fn, x, y, z, p) ==
  /\ x[1] = 1 /\ x[2] % 2 = 0 /\ y = x
  /\ (fn \in {0, 3, 5, 6} => z = x) /\ (fn = 5 => p = x)
  /\ fn \notin {1, 4}
AnchorExp(fn, j) == CASE fn = 0 \/ fn = 2 -> -j [] fn = 3 -> j [] OTHER -> -3 * j

(* ------------------------------------------------------------------------ *)
(* tolerances                                                                 *)
(* ------------------------------------------------------------------------ *)
ETol == RO                  \* first and second kind, Jacobi functions, Carlson R_F, R_C, R_D, 2-argument R_G
\* third kind (Pi, G, H): full accuracy is demanded for moderate parameters (complements >= 2^-10, |k2|, |alpha2| < 4);
\* for near-singular or large parameters the R_J based forms lose digits and the documentation gives no bound:
\* a coarse anchor (2^-31) of the definition (named rule, notes/C15.md)
Coarse == 4194304
Moderate(r) == r.kp2e >= -10 /\ r.ap2e >= -10 /\ r.a2e <= 1 /\ r.k2e <= 1
E3Tol(r) == IF Moderate(r) THEN 2 * RO ELSE Coarse
K1(r) == r.kp2e = -9999       \* k2 = 1
A1(r) == r.ap2e = -9999       \* alpha2 = 1
A0(r) == r.a2s = 0

\* Every documented way of setting the parameters (cm: 0 four-argument constructor, 1 two-argument constructor, 2 default
\* constructor + Reset(k2, alpha2), 3 four-argument Reset of a used object) yields an object whose inspectors k2(), kp2(),
\* alpha2(), alphap2() are the requested parameters (pin / insp: sign and exponent of k2 and alpha2, exact limbs of the
\* complements; ieq: all four bit patterns agree) - and all the laws below hold for each of them.
InspOK(r) == r.cm \in 0..3 /\ r.insp = r.pin /\ r.ieq

\* complete integrals: r = <<K, E, D, Pi, G, H, K-E>>, inf: 0 finite, 1 infinite, 2 NaN
EcOK(r) ==
  /\ InspOK(r)
  /\ r.inf[1] = (IF K1(r) THEN 1 ELSE 0) /\ r.inf[3] = r.inf[1] /\ r.inf[2] = 0
  /\ r.inf[4] = (IF K1(r) \/ A1(r) THEN 1 ELSE 0)
  /\ r.inf[5] = (IF A1(r) THEN 1 ELSE 0)
  /\ r.inf[6] = (IF K1(r) /\ A1(r) THEN 1 ELSE 0)
  /\ (~K1(r) => Good(r.r[1], ETol) /\ Good(r.r[3], ETol) /\ Good(r.r[7], 2 * ETol))
  /\ Good(r.r[2], ETol)
  /\ (r.inf[4] = 0 => GoodOrSkipped(r.r[4], E3Tol(r)))
  /\ (r.inf[5] = 0 => GoodOrSkipped(r.r[5], E3Tol(r)))
  /\ (r.inf[6] = 0 => GoodOrSkipped(r.r[6], E3Tol(r)))
  /\ (r.k2s > 0 /\ ~K1(r) => Good(r.leg, 3 * ETol))        \* Legendre's relation

\* incomplete integrals at phi: r, tr = <<F, E, D, Pi, G, H>>; past: |phi| >= pi/2
IdTol(r) == IF K1(r) THEN Coarse ELSE 2 * ETol
EiOK(r) ==
  LET div == K1(r) /\ r.past            \* the integrals of the first kind diverge at pi/2 when k2 = 1
      ok12(x) == Good(x, ETol)
      ok3(x) == GoodOrSkipped(x, E3Tol(r))
      \* cardinal points of the (sn, cn, dn) interface: cd[6 (j-1) + k], j = 1..4 for (sn, cn) = (0,1), (1,0), (0,-1), (-1,0),
      \* k = 1..6 for F, E, D, Pi, G, H: the values 0, X_c, 2 X_c, -X_c; cdd: the periodic parts vanish there (absolute)
      cardTol(i) == IF ((i - 1) % 6) < 3 THEN ETol ELSE E3Tol(r)
  IN /\ InspOK(r)
     /\ \A i \in DOMAIN r.cd : GoodOrSkipped(r.cd[i], cardTol(i)) /\ GoodOrSkipped(r.cdd[i], 2 * cardTol(i))
     /\ ok12(r.r[2]) /\ GoodOrSkipped(r.tr[2], ETol) /\ GoodOrSkipped(r.red, ETol) /\ r.cl[2] = 0
     /\ (~div => GoodOrSkipped(r.r[1], ETol) /\ GoodOrSkipped(r.r[3], ETol) /\ r.cl[1] = 0 /\ r.cl[3] = 0)
     /\ (~div => ok3(r.r[4]) /\ ok3(r.r[5]) /\ ok3(r.r[6]))
     /\ (~K1(r) => GoodOrSkipped(r.tr[1], ETol) /\ GoodOrSkipped(r.tr[3], ETol)
                    /\ ok3(r.tr[4]) /\ ok3(r.tr[5]) /\ ok3(r.tr[6]))
     \* periodic parts, absolute (unit 2^-53 rad)
     /\ GoodOrSkipped(r.dl[2], 2 * ETol)
     /\ (~K1(r) => GoodOrSkipped(r.dl[1], 2 * ETol) /\ GoodOrSkipped(r.dl[3], 2 * ETol))
     /\ GoodOrSkipped(r.dl[4], 2 * E3Tol(r)) /\ GoodOrSkipped(r.dl[5], 2 * E3Tol(r)) /\ GoodOrSkipped(r.dl[6], 2 * E3Tol(r))
     \* identities of the header: alpha2 = 0: Pi = F, G = E, H = F - D; otherwise G and H in terms of F and Pi
     \* (for k2 = 1 the R_J based G and H cancel near the pole - "WARNING: large cancellation" in the source - coarse there)
     /\ (~div => IF A0(r) THEN GoodOrSkipped(r.id[1], IdTol(r)) /\ GoodOrSkipped(r.id[2], IdTol(r)) /\ GoodOrSkipped(r.id[3], 2 * IdTol(r))
                 ELSE GoodOrSkipped(r.id[2], 2 * E3Tol(r)) /\ GoodOrSkipped(r.id[3], 2 * E3Tol(r)))

\* Einv, deltaEinv, am, sn/cn/dn.  An inverse function is judged by the smaller of its forward and backward errors.
AmTol(r) == IF r.kp2e >= -10 /\ r.k2e <= 3 THEN 2 * ETol ELSE Coarse
EjOK(r) ==
  /\ InspOK(r)
  /\ r.iec = 0 /\ r.dec = 0
  /\ (Good(r.ieu, 2 * ETol) \/ Good(r.iep, 2 * ETol))
  /\ GoodOrSkipped(r.deu, 2 * ETol)
  \* am near the singular modulus loses digits in the descending Landen recursion: coarse anchor there
  /\ (Good(r.amu, AmTol(r)) \/ Good(r.amp, AmTol(r)))
  /\ r.ameq
  /\ \A i \in 1..3 : GoodOrSkipped(r.amj[i], ETol)
  /\ \A i \in 1..3 : GoodOrSkipped(r.snj[i], 2 * ETol)
  /\ \A i \in 4..5 : GoodOrSkipped(r.snj[i], ETol)

\* Carlson: finite positive value, the defining integral, and the structure laws (symmetry under permutation,
\* homogeneity, duplication theorem, degenerate forms R_F(x,y,0), R_C = R_F(x,y,y), R_D = R_J(x,y,z,z)).
\* ax: floor(log2) of the arguments (-9999: zero or absent); sp: their exponent range (used by the known-finding
\* matcher: the 3-argument R_G and R_J lose accuracy for widely spread arguments, notes/C15.md).
\* RG2_LogSpread (named rule): the 2-argument R_G (Carlson 2.36-2.39, an AGM with a subtracted sum) loses about one
\* unit per 3 binades of the ratio of its arguments; full accuracy is demanded up to a ratio of 2^64 (every k'^2 a
\* double modulus can produce), beyond that the tolerance grows with the exponent range.
CTol(r) == IF r.fn = 4 /\ r.sp > 64 THEN ETol + r.sp ELSE ETol
RcOK(r) ==
  /\ r.v[1] = 1
  /\ Good(r.rq, CTol(r))
  /\ \A i \in DOMAIN r.st : GoodOrSkipped(r.st[i], 2 * ETol)
\* lattice line: documented domain, and the degenerate values stated exactly
RcLatticeOK(r) ==
  LET x == <<r.par[1], r.par[2]>>  y == <<r.par[3], r.par[4]>>  z == <<r.par[5], r.par[6]>>  p == <<r.par[7], r.par[8]>>
  IN /\ RcDomain(r.fn, x, y, z, p)
     /\ RcOK(r)
     /\ (AllEq4(r.fn, x, y, z, p) => DyNear(r.v, 1, 1, AnchorExp(r.fn, x[2] \div 2), ETol))

\* lattice line of the Legendre family: the logged classes agree with the dyadic parameters
ParFieldsOK(r) ==
  LET kp == <<r.par[1], r.par[2]>>  ap == <<r.par[3], r.par[4]>>
      limbOK(d, i) == IF Dy0(d) THEN r.pin[i] = 0 /\ r.pin[i + 1] = 0 /\ r.pin[i + 2] = 0
                      ELSE DyNear(<<1, r.pin[i], r.pin[i + 1], r.pin[i + 2]>>, 1, d[1], d[2], 0)
  IN /\ ExactComplement(kp) /\ ExactComplement(ap)
     /\ limbOK(kp, 3) /\ limbOK(ap, 8)          \* the complements handed to the library are the lattice values, exactly
     /\ r.k2s = -DyCmp1(kp) /\ r.a2s = -DyCmp1(ap)
     /\ r.kp2e = (IF Dy0(kp) THEN -9999 ELSE DyLog(kp)) /\ r.ap2e = (IF Dy0(ap) THEN -9999 ELSE DyLog(ap))
=============================================================================
