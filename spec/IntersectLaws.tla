---------------------------- MODULE IntersectLaws ----------------------------
(***************************************************************************)
(* Laws for Intersect on ellipsoids (property C17), from Intersect.hpp and   *)
(* IntersectTool(1).  Each record holds one query and what the driver        *)
(* measured about its answer:                                                *)
(*   z      separation of the points X(x), Y(y) (nm at WGS84 scale)           *)
(*   sn     |sin| of the crossing angle there (1e-9); anti: headings opposed  *)
(*   c      the coincidence indicator returned                                *)
(*   dminc  min over All(origin, radius covering the answer) of               *)
(*          (L1(e) - L1(answer)) * sin(crossing angle), signed, nm            *)
(*   inallc min over that list of L1(e - answer) * sin(crossing angle), nm    *)
(* An intersection is located along the lines only to (separation            *)
(* tolerance) / sin(crossing angle); differences of displacements are         *)
(* therefore compared after multiplication by that sine (CrossingRule).       *)
(*                                                                          *)
(* mk tells how the two lines were constructed (from the inputs only):        *)
(*   gen, merid2 (two meridians), corner: distinct geodesics crossing at an   *)
(*        angle with |sin| >= 1e-2 at the construction point                  *)
(*   coin+ / coin-: the same geodesic, parallel / antiparallel                *)
(*   near: nearly parallel (NearlyParallelFree: only on-both-lines is         *)
(*        demanded)                                                           *)
(*   coin: segments cut from one geodesic with Direct (coincident up to        *)
(*        round-off); coinx+ / coinx-: pieces of the equator or of one        *)
(*        meridian given by coordinates (EXACTLY coincident), parallel /       *)
(*        antiparallel.  For these ovq = length of the overlap of the two      *)
(*        pieces (negative: of the gap between them) in ppm of X, computed     *)
(*        from the inputs.  Intersect.hpp: segmode is "an indicator equal to   *)
(*        zero if the segments intersect" and the result "the intersection     *)
(*        point if the segments intersect": overlapping pieces intersect, so   *)
(*        segmode = 0 (and by segmode-definition the answer lies inside        *)
(*        both); pieces separated by a gap have no common point, segmode # 0.  *)
(*        OvlMargin: pieces that overlap / are apart by less than 0.1 % of X   *)
(*        may be classified either way (SegEdgeFree).                          *)
(*                                                                          *)
(* TOLERANCES.  TolOn = separation of X(x) and Y(y): two positions of the     *)
(* documented accuracy (Geodesic.hpp 15/25/30 nm; GeodesicExact.hpp "about    *)
(* 40 nm"; IntersectTool(1): "nearly full double precision accuracy for |f| < *)
(* 0.02", "full accuracy" with exact) + TolRound + the coincidence threshold  *)
(* (Intersect.cpp: "about 4.3 nm on WGS84" -> 5), + 2 um where um is the       *)
(* spacing of doubles at the larger displacement (All reaches |x| ~ 1e8 m,     *)
(* where one ulp is 15 nm: the displacements cannot be more precise).          *)
(* TolMin = 2 TolOn for comparisons between two computed intersections.        *)
(***************************************************************************)
EXTENDS GeodProjLaws

CONSTANTS SnCoin,        \* 1e-9: |sin| of the angle between headings that "lie on top of one another"
          OvlMargin,     \* ppm of the length of X: overlaps / gaps of coincident segments shorter than this are edge cases
          DupSep         \* nm: two listed intersections closer than this (across the lines) are the same intersection

\* ellipsoid family of the intersection records: 1/298, 0, -1/298, +-0.01, +-0.02 (series), 0.1, -0.1, 0.2, -0.25 (exact)
XErr(fi, ex) == IF ex THEN 40 ELSE IF fi <= 2 THEN 15 ELSE IF fi <= 4 THEN 25 ELSE 30
TolOn(r) == 2 * XErr(r.fi, r.ex) + TolRound + 5
TolMin(r) == 2 * TolOn(r)

Strong(r) == r.mk \in {"gen", "merid2", "corner", "coin+", "coin-"}
Crossing(r) == r.mk \in {"gen", "merid2", "corner"}

\* "if the geodesics lie on top of one another at the point of intersection, then c is set to +1, if they are parallel, and
\*  -1, if they are antiparallel"; distinct crossing geodesics give 0; on one and the same geodesic a transversal
\* self-crossing (c = 0) may also be the closest
\* the equator and the meridians are simple closed geodesics (no transversal self-crossing): pieces of them lie on top of one
\* another wherever they meet, c = +1 / -1 exactly
CoinOK(r) ==
  /\ r.c \in {-1, 0, 1}
  /\ r.c # 0 => r.sn <= SnCoin /\ (r.anti = 1) = (r.c < 0)
  /\ Crossing(r) => r.c = 0
  /\ r.mk = "coin+" => r.c >= 0
  /\ r.mk = "coin-" => r.c <= 0
  /\ r.mk = "coinx+" => r.c = 1
  /\ r.mk = "coinx-" => r.c = -1

\* One geodesic taken twice from starting data that agree only up to round-off is a pair of distinct, nearly parallel geodesics
\* (NearlyParallelFree).  An answer with c = 0 there is a crossing at an angle below SnCoin: z, the distance between X(x) and Y(y),
\* then contains the displacement ALONG the common direction, which the position accuracy of the two lines does not bound (each of
\* the two points may lie on the other line to a nanometre while they are 100 nm apart along it; seen once in 40 000 records,
\* seed 202: z = 108 nm, |sin| = 1e-12).  The cross-track distance would be the right observable; it is not logged, so the
\* separation law is not applied to this sub-class (answers with c = +-1 and transversal answers still owe it).
NearlyParallelC0(r) == r.mk \in {"coin+", "coin-"} /\ r.c = 0 /\ r.sn <= SnCoin
Common(r) ==
  F("no-exception", r.out = "ok" /\ r.aout = "ok" /\ r.fin)
  \o F("interfaces-agree", r.same)
  \o F("on-both-lines", NearlyParallelC0(r) \/ Le(r.z, TolOn(r) + 2 * r.um))
  \o F("coincidence-indicator", CoinOK(r))

\* the answer minimises the L1 distance among all intersections and is one of them
Minimal(r) == r.na >= 1 /\ r.dminc >= -TolMin(r) /\ Le(r.inallc, TolMin(r))

\* (for an answer on coincident geodesics, c # 0, the crossing angle vanishes and the comparison is void: the minimality of
\*  coincident answers is decided exactly on the lattice sphere, records ic.  The same holds for an answer with c = 0 at which the
\*  headings of ONE geodesic taken twice are parallel to SnCoin: lines that coincide only up to the round-off of their starting data
\*  are two distinct, nearly parallel geodesics - NearlyParallelFree; a transversal crossing of two branches has a finite angle)
Transversal(r) == r.c = 0 /\ (r.mk \in {"coin+", "coin-"} => r.sn > SnCoin)
XcFails(r) == Common(r) \o F("closest-minimises-L1", Strong(r) /\ Transversal(r) => Minimal(r))

\* "The returned intersection minimizes Dist(p) (excluding p = [0,0])"
\* One geodesic taken twice from one point (mk = coin+ / coin-, cc = +1 / -1): X(x) and Y(y) are the same point of the same BRANCH
\* exactly when y = cc x (lin = |y - cc x|, nm at WGS84 scale); there the lines "lie on top of one another" - c = cc, not 0.  (Another
\* branch of the same geodesic may cross transversally, c = 0, also at a tiny angle when the geodesic nearly closes; then y # cc x.)
SameBranchOK(r) == r.mk \in {"coin+", "coin-"} /\ r.lin >= 0 /\ r.lin <= TolMin(r) => r.c = (IF r.mk = "coin+" THEN 1 ELSE -1)
XnFails(r) ==
  Common(r)
  \o F("coincidence-indicator-on-the-same-branch", SameBranchOK(r))
  \o F("next-excludes-origin", r.d0m >= 1000)
  \o F("next-minimises-L1", Strong(r) /\ Transversal(r) => Minimal(r))

\* the observations of a Next call that carry no statement about c and minimality (emitted as a record of their own for the input
\* class of a known finding, so that its label does not cover them)
XoFails(r) ==
  F("no-exception", r.out = "ok" /\ r.fin)
  \o F("interfaces-agree", r.same)
  \o F("on-both-lines", Le(r.z, TolOn(r) + 2 * r.um))
  \o F("next-excludes-origin", r.d0m >= 1000)

\* segmode = 3 kx + ky, kx = -1 if x < 0, 0 if 0 <= x <= sx, 1 if sx < x (x0 = sign x, x1 = sign (x - sx), exact)
Kc(s0, s1) == IF s0 < 0 THEN -1 ELSE IF s1 <= 0 THEN 0 ELSE 1
XsFails(r) ==
  Common(r)
  \o F("segmode-definition", r.segmode = 3 * Kc(r.x0, r.x1) + Kc(r.y0, r.y1))
  \o F("segment-answer-is-an-intersection", Crossing(r) => r.na >= 1 /\ Le(r.inallc, TolMin(r)))
  \* "the intersection point if the segments intersect, otherwise the intersection point closest to the midpoints"
  \o F("segments-do-not-intersect", Crossing(r) /\ r.segmode # 0 => r.insmax <= TolMin(r) /\ r.dminc >= -TolMin(r))
  \* (not for mk = "coin": end points rounded to doubles define two distinct, nearly parallel geodesics, which need not meet inside
  \*  the overlap at all - NearlyParallelFree)
  \o F("overlapping-segments-intersect", r.mk \in {"coinx+", "coinx-"} /\ r.ovq >= OvlMargin => r.segmode = 0)
  \o F("disjoint-segments-do-not-intersect", r.mk \in {"coinx+", "coinx-"} /\ r.ovq <= -OvlMargin => r.segmode # 0)

XaFails(r) ==
  F("no-exception", r.out = "ok" /\ r.out2 = "ok" /\ r.outc = "ok" /\ r.fin)
  \o F("interfaces-agree", r.same)
  \o F("within-maxdist", r.n > 0 => r.over <= 0)                       \* exact, with the documented Dist
  \o F("sorted-by-distance", r.srt >= 0)                                \* exact
  \o F("on-both-lines", Le(r.zmax, TolOn(r) + 2 * r.um))
  \o F("coincidence-indicator", r.cbad = 0 /\ (Crossing(r) => r.anyc = 0))
  \o F("once", Crossing(r) /\ r.n > 1 => r.sepc >= DupSep)
  \o F("complete-smaller-radius", Crossing(r) => r.n2 >= r.n2lo /\ r.n2 <= r.n2hi /\ Le(r.submiss, TolMin(r)))
  \o F("complete-closest-first", Crossing(r) => /\ r.cin = 1 => r.n >= 1 /\ Le(r.cfirst, TolMin(r))
                                                /\ r.cin = -1 => r.n = 0)
  \o F("complete-next-chain", Crossing(r) /\ r.chin = 1 => Le(r.chain, TolMin(r)))
=============================================================================
