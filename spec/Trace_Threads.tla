---------------------------- MODULE Trace_Threads ----------------------------
(* Conformance of the real library with Threads.tla: one record per executed   *)
(* configuration, carrying ThreadSanitizer's verdict and whether every         *)
(* concurrent call returned the value of the same call executed alone.         *)
(* The model (protocol "eager", model-checked by MC_Threads) has no race in    *)
(* any configuration, so the implementation must have none either.             *)
(*                                                                              *)
(* The record also says which singleton accessors were called before the       *)
(* threads started ("pre") and by the threads ("used"), observed at link time. *)
(* They bind the run to the model's assumptions:                               *)
(*   threads-cold   a cold configuration is cold: no static of program A or B  *)
(*                  (stat[x] = "uninit" in InitCfg) was touched by main; a warm *)
(*                  one is warm: all of them were.                              *)
(*   threads-table  the statics the threads touched are exactly the "s" steps  *)
(*                  of the two access programs (the table is "read from the     *)
(*                  code"; this is the part of it that can be observed).        *)
EXTENDS Integers, Sequences, FiniteSets, TraceKit

CONSTANT ModelNames      \* number of program names of the model (sanity)
VARIABLE l

\* the access-program table of the model (the variables of Threads play no role here)
TP == INSTANCE Threads WITH NThreads <- 3, Protocol <- "eager", cfg <- <<>>, pc <- <<>>, sub <- <<>>,
                            stat <- <<>>, owner <- <<>>, filled <- <<>>
ASSUME ModelNames = Cardinality(TP!Names)

SeqSet(s) == {s[i] : i \in 1..Len(s)}
StaticsOf(name) == {s[2] : s \in {x \in SeqSet(TP!Prog(name)) : x[1] = "s"}} \cap TP!Observable
\* threads 0, 2, ... run program A, threads 1, 3, ... program B
Expected(r) == StaticsOf(r.a) \cup (IF r.nt >= 2 THEN StaticsOf(r.b) ELSE {})

Complete(r) == /\ r.known /\ r.rc = 0 /\ r.a \in TP!Names /\ r.b \in TP!Names
               /\ Has(r, "pre") /\ Has(r, "used") /\ Has(r, "nt")

Obligation(r) ==
  CASE r.e = "conc" -> r.known /\ ~r.race /\ r.same /\ r.rc = 0 /\ r.a \in TP!Names /\ r.b \in TP!Names
    [] OTHER -> FALSE

ColdOk(r) == Complete(r) => IF r.cold THEN SeqSet(r.pre) \cap Expected(r) = {}
                                      ELSE Expected(r) \subseteq SeqSet(r.pre)
TableOk(r) == Complete(r) => SeqSet(r.used) = Expected(r)

Init == l = 1 /\ KitInit
Next == /\ l <= NT
        /\ Require(Obligation(T[l]), l, IF T[l].race THEN "threads-race" ELSE IF T[l].same \/ T[l].rc # 0 THEN "threads-run" ELSE "threads-value",
                   <<T[l].a, T[l].b, T[l].cold>>)
        /\ IF T[l].e = "conc"
           THEN /\ Require(ColdOk(T[l]), l, "threads-cold", <<T[l].a, T[l].b, T[l].cold>>)
                /\ Require(TableOk(T[l]), l, "threads-table", <<T[l].a, T[l].b, T[l].cold>>)
           ELSE TRUE
        /\ Consumed(l)
        /\ l' = l + 1
=============================================================================
