---------------------------- MODULE Trace_Threads ----------------------------
(* Conformance of the real library with Threads.tla: one record per executed   *)
(* configuration, carrying ThreadSanitizer's verdict and whether every         *)
(* concurrent call returned the value of the same call executed alone.         *)
(* The model (protocol "eager", model-checked by MC_Threads) has no race in    *)
(* any configuration, so the implementation must have none either.             *)
EXTENDS Integers, Sequences, TraceKit

CONSTANT ModelNames      \* number of program names of the model (sanity)
VARIABLE l

Obligation(r) ==
  CASE r.e = "conc" -> r.known /\ ~r.race /\ r.same /\ r.rc = 0
    [] OTHER -> FALSE

Init == l = 1 /\ KitInit
Next == /\ l <= NT
        /\ Require(Obligation(T[l]), l, IF T[l].race THEN "threads-race" ELSE IF T[l].same THEN "threads-run" ELSE "threads-value",
                   <<T[l].a, T[l].b, T[l].cold>>)
        /\ Consumed(l)
        /\ l' = l + 1
=============================================================================
