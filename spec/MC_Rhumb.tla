---------------------------- MODULE MC_Rhumb ----------------------------
(* Lattice enumeration for Rhumb / RhumbLine (C09).  root -> chunk c -> vectors.   *)
(*   <<"li", lat1, k1, lat2, k2, d>>   inverse problem (lat1, k1) -> (lat2, k2 + d ulp)           *)
(*   <<"ld", lat1, k1, azi, s>>        direct problem / line position, s in degrees of arc       *)
(*   <<"lp", lat1, k1, azi, sa, sb>>   two positions sa, sb on ONE line object (the second is observed)       *)
(*   <<"lm", lat1, k1, azi, s, form, m>>     one call form of the direct problem with output mask m *)
(*   <<"im", lat1, k1, lat2, k2, d, form, m>> one call form of the inverse problem with mask m      *)
(* TLC checks the invariants below on the MODEL (consistency of my reading of the documentation)  *)
(* and emits every vector; the driver replays them on the real Rhumb / RhumbLine.                 *)
EXTENDS RhumbLattice, TLC, Json

CONSTANTS Part, NChunks, Dense
VARIABLE v

InChunk(S, C) == {x \in S : x % NChunks = C}

LatSeq == <<-90, -89, -60, -30, -1, 0, 1, 30, 60, 89, 90>>
K1s == IF Dense THEN {0, 10, 180, -180, -170, 350, -540} ELSE {0, -170, 350}
Diffs == IF Dense THEN {0, 1, -1, 50, -50, 90, -90, 179, -179, 180, -180, 181, -181, 360, 540, -540, 720}
         ELSE {0, 1, -1, 50, -90, 179, -179, 180, -180, 181, -181, 360, -540}
\* one ulp either side only where the sign of the reduced difference is at stake (k2 = 0 has no useful ulp)
Ds(k1, k2) == IF k2 # 0 /\ Reduce(k2 - k1) \in {0, -180} THEN {-1, 0, 1} ELSE {0}

VecLi(C) ==
  \E i \in InChunk(0..120, C), k1 \in K1s, D \in Diffs :
    LET lat1 == LatSeq[(i \div 11) + 1]
        lat2 == LatSeq[(i % 11) + 1]
    IN \E d \in Ds(k1, k1 + D) : v' = <<"li", lat1, k1, lat2, k1 + D, d>>

Azis == IF Dense THEN {0, 60, 90, 120, 180, -60, -90, -120, -180, 240, 270, 360, 420, -300}
        ELSE {0, 60, 90, 120, 180, -60, -90, -120, -180, 270, 420}
Dists == IF Dense THEN {0, 1, 2, 10, 30, 60, 88, 90, 92, 120, 178, 180, 182, 270, 358, 360, 362, 540, 720}
         ELSE {0, 1, 2, 30, 60, 90, 120, 178, 180, 182, 270, 360, 362, 540}
DK1s == IF Dense THEN {0, 170, -180, 540} ELSE {0, 170, 540}
VecLd(C) ==
  \E i \in InChunk(0..10, C), k1 \in DK1s, azi \in Azis, s0 \in Dists, sg \in {-1, 1} :
    LET lat1 == LatSeq[i + 1]
        s == sg * s0
    IN /\ (s0 = 0 => sg = 1)
       /\ OnLattice(azi, s)
       /\ v' = <<"ld", lat1, k1, azi, s>>

(* Call forms x output masks.  The general routines with every one of the 64 masks on problems  *)
(* that span the classes of the model (regular, ending at / beyond a pole, leaving a pole, zero *)
(* distance, wrapped and unwrapped longitudes); every overload on a wider set of problems.      *)
LmLats == IF Dense THEN {-90, -30, 0, 60, 89, 90} ELSE {-90, 0, 60}
LmK1s == IF Dense THEN {0, 170, -180, 540} ELSE {170, 540}
LmAzis == IF Dense THEN {0, 60, 90, -120, 180, 420} ELSE {0, 90, -120}
LmDists == IF Dense THEN {0, 2, 30, 120, 182, 360} ELSE {0, 120, 182, 360}
\* all 64 masks where the start longitude makes the wrapped and the unrolled lon2 differ (quick: on one azimuth per latitude)
LmAllMasks(lat1, k1, azi, s) == (Dense /\ k1 \in {170, 540}) \/ (k1 = 540 /\ azi = (IF lat1 = 0 THEN 90 ELSE -120))
VecLm(C) ==
  \E lat1 \in LmLats, k1 \in LmK1s, azi \in LmAzis, s0 \in LmDists, sg \in {-1, 1}, form \in DirectForms :
    LET s == sg * s0 IN
    /\ (s0 = 0 => sg = 1) /\ (sg = -1 => s0 \in {120, 360})
    /\ OnLattice(azi, s)
    /\ \E m \in InChunk(0..63, C) :
         /\ IF General(form) THEN LmAllMasks(lat1, k1, azi, s) \/ m \in {0, 19, 31, 51, 63} \/ MaskSet(m) \in {{BLAT}, {BLON}, {BAREA}, {BLON, BUNROLL}}
            ELSE m = MaskNum(Args(form))
         /\ v' = <<"lm", lat1, k1, azi, s, form, m>>

(* A RhumbLine is an immutable value ("RhumbLine facilitates the determination of a series of   *)
(* points on a single rhumb line"): Position is a function of the line and s12 alone.  The      *)
(* vector asks for sb after sa on the same object and on a copy of it; the model answer is the   *)
(* answer of the ld problem (lat1, k1, azi, sb) whatever sa was (invariant LpInv).               *)
LpDists == IF Dense THEN {0, 2, 30, 120, 182, 360, -120, -360} ELSE {0, 120, 182, -360}
VecLp(C) ==
  \E lat1 \in LmLats, k1 \in LmK1s, azi \in LmAzis, sa \in LpDists, sb \in LpDists :
    /\ ((lat1 + 90) + (sa + 360)) % NChunks = C
    /\ OnLattice(azi, sa) /\ OnLattice(azi, sb)
    /\ v' = <<"lp", lat1, k1, azi, sa, sb>>

ImLats1 == IF Dense THEN {-90, -30, 0, 60, 90} ELSE {-90, 0, 30}
ImLats2 == IF Dense THEN {-90, -1, 0, 30, 90} ELSE {0, 30, 90}
ImK1s == IF Dense THEN {0, -170, 350} ELSE {-170}
ImDiffs == IF Dense THEN {0, 50, -90, 180, -180, 360} ELSE {0, 50, -180}
ImAllMasks(lat1, lat2, D) == Dense \/ D = 50 \/ (lat1 = lat2)
VecIm(C) ==
  \E lat1 \in ImLats1, lat2 \in ImLats2, k1 \in ImK1s, D \in ImDiffs, form \in InverseForms :
    \E m \in InChunk(0..63, C) :
      /\ IF General(form) THEN ImAllMasks(lat1, lat2, D) \/ m \in {0, 28, 31, 63} \/ MaskSet(m) \in {{BDIST}, {BAZI}, {BAREA}}
         ELSE m = MaskNum(Args(form))
      /\ v' = <<"im", lat1, k1, lat2, k1 + D, 0, form, m>>

Init == v = <<"root">>
Next ==
  \/ v = <<"root">> /\ \E c \in 0..(NChunks - 1) : v' = <<"chunk", c>>
  \/ /\ v[1] = "chunk"
     /\ CASE Part = "li" -> VecLi(v[2])
          [] Part = "ld" -> VecLd(v[2])
          [] Part = "lp" -> VecLp(v[2])
          [] Part = "lm" -> VecLm(v[2])
          [] Part = "im" -> VecIm(v[2])

(* ------------------------------ model invariants ------------------------- *)
\* the inverse model: extent, tie rule, exchange of the end points
LiInv ==
  v[1] = "li" =>
    LET lat1 == v[2]  k1 == v[3]  lat2 == v[4]  k2 == v[5]  d == v[6]
        l == Lon12(k1, k2, d)
        lr == Lon12(k2, k1, -d)               \* the exchanged problem (the ulp now sits on the first longitude)
        c == AziClass(lat1, lat2, l)
        cr == AziClass(lat2, lat1, lr)
        tie == IsTie(k1, k2, d)
    IN \* at most 180 degrees of longitude, never -180
       /\ l[1] \in -180..180 /\ l # <<-180, 0>> /\ (l[1] = -180 => l[2] > 0) /\ (l[1] = 180 => l[2] <= 0)
       \* congruent to the literal difference
       /\ (l[1] - (k2 - k1)) % 360 = 0
       \* exchange: opposite course, except on a tie where both problems go east
       /\ (~tie => lr = ENeg(l) /\ cr = Opposite(c))
       /\ (tie => l = <<180, 0>> /\ lr = <<180, 0>> /\ cr = FlipNS(c) /\ c \in {"E", "NE", "SE", "N", "S", "any"})
       \* same length and opposite area in the exchanged problem
       /\ MerS12(lat2, lat1, lr) = MerS12(lat1, lat2, l) /\ ParS12(lat2, lat1, lr) = ParS12(lat1, lat2, l)
       /\ LET A == AnyArea(lat1, lat2, l)  B == AnyArea(lat2, lat1, lr) IN
          (A # <<>> /\ ~tie) => (B # <<>> /\ B[1] = -A[1])
       \* east-going courses have azimuth in [0, 180]
       /\ (ESgn(l) > 0 => c \in {"E", "NE", "SE", "N", "S", "any"}) /\ (ESgn(l) < 0 => c \in {"W", "NW", "SW", "N", "S", "any"})
       \* periodic in both longitudes
       /\ Lon12(k1 + 360, k2, d) = l /\ Lon12(k1, k2 - 720, d) = l
       \* the deviation differs from the documented rule exactly on ties with lon2 < lon1
       /\ (Lon12SignOfDiff(k1, k2, d) # l) = (tie /\ k2 < k1)

\* the direct model: latitude folding, reversal, direct o inverse on the lattice
LdInv ==
  v[1] = "ld" =>
    LET lat1 == v[2]  k1 == v[3]  azi == v[4]  s == v[5]
        m == Mu2(lat1, azi, s)  lat2 == Reflect(m)  cls == DirClass(lat1, azi, s)
    IN /\ lat2 \in -90..90
       \* same point of the meridian circle
       /\ (m - lat2) % 360 = 0 \/ (m + lat2 - 180) % 360 = 0
       /\ (cls # "cross" => lat2 = m)
       \* negative distance = opposite azimuth; azimuth is periodic
       /\ Mu2(lat1, azi + 180, -s) = m /\ Mu2(lat1, azi + 360, s) = m /\ Mu2(lat1, azi - 360, s) = m
       /\ SphLon12(lat1, azi + 180, -s) = SphLon12(lat1, azi, s) /\ MerLon12(azi + 180) = MerLon12(azi)
       \* a whole turn of the meridian circle gives the same latitude
       /\ (C2(azi) \in {2, -2} => Reflect(Mu2(lat1, azi, s + 360)) = lat2)
       \* direct followed by inverse: same length when the course is a shortest one, never longer otherwise
       /\ (cls = "reg" /\ MerLon12(azi) # <<>>) =>
            LET l == Lon12(k1, k1, 0) IN
            /\ MerS12(lat1, lat2, l) = PInt(Abs(s))
            /\ (s # 0 => AziClass(lat1, lat2, l) = (IF s * C2(azi) > 0 THEN "N" ELSE "S"))
            /\ AnyArea(lat1, lat2, l) = <<0, 0>>
       /\ (cls = "reg" /\ C2(azi) = 0 /\ lat1 \in {0, 60, -60}) =>
            LET dl == SphLon12(lat1, azi, s)[1]  l == Lon12(k1, k1 + dl, 0)  p == ParS12(lat1, lat1, l) IN
            /\ p # <<>> /\ p[1] <= Abs(s) * 1000
            /\ (Abs(dl) < 180 => p = PInt(Abs(s)) /\ (s # 0 => AziClass(lat1, lat1, l) = (IF dl > 0 THEN "E" ELSE "W")))
            /\ (\A x \in NormSet(k1 + dl) : x \in -180..180 /\ (x - (k1 + dl)) % 360 = 0)

\* masks and call forms: what is written, which form of lon2, overload == general call with its documented mask
MaskInv ==
  v[1] \in {"lm", "im"} =>
    LET form == IF v[1] = "lm" THEN v[6] ELSE v[7]
        m == IF v[1] = "lm" THEN v[7] ELSE v[8]
        W == Written(form, m)
        g == GeneralOf(form)
    IN /\ form \in (IF v[1] = "lm" THEN DirectForms ELSE InverseForms)
       /\ m \in 0..63 /\ MaskNum(MaskSet(m)) = m
       \* only arguments of the form are written, and only quantities of the family
       /\ W \subseteq Args(form) /\ W \subseteq Outputs(form) /\ W \subseteq FormMask(form, m)
       \* an overload sets every one of its output arguments, wraps lon2, and is the general call with that mask
       /\ (~General(form) => /\ W = Args(form) /\ ~Unrolled(form, m) /\ m = MaskNum(Args(form))
                              /\ W = Written(g, m) /\ Unrolled(g, m) = FALSE)
       \* ALL requests every output of either family and does not unroll; LONG_UNROLL adds no output
       /\ Written(g, MaskNum(AllMask)) = Outputs(g) /\ ~Unrolled(g, MaskNum(AllMask))
       /\ (General(form) => /\ Written(form, MaskNum(MaskSet(m) \cup {BUNROLL})) = W
                             /\ Written(form, MaskNum(MaskSet(m) \ {BUNROLL})) = W
                             /\ Unrolled(form, m) = (BUNROLL \in MaskSet(m))
                             \* the bits of the other family are without effect
                             /\ Written(form, MaskNum(MaskSet(m) \cap (Outputs(form) \cup {BUNROLL}))) = W
                             \* monotone: requesting more never writes less
                             /\ \A b \in MaskBits : W \subseteq Written(form, MaskNum(MaskSet(m) \cup {b})))
       \* GenDirect and GenPosition are the same function of the mask
       /\ (v[1] = "lm" => Written("GenDirect", m) = Written("GenPosition", m))
       \* the problem itself is a vector of the ld / li lattice (its full-mask answer is judged there)
       /\ (v[1] = "lm" => OnLattice(v[4], v[5]) /\ Reflect(Mu2(v[2], v[4], v[5])) \in -90..90)
       /\ (v[1] = "im" => Lon12(v[3], v[5], v[6])[1] \in -180..180)

\* the second position on a line does not depend on the first (the model has no state to carry)
LpInv ==
  v[1] = "lp" =>
    LET lat1 == v[2]  azi == v[4]  sa == v[5]  sb == v[6] IN
    /\ \A x \in LpDists : OnLattice(azi, x) =>
          /\ Mu2(lat1, azi, sb) = Mu2(lat1, azi, x) + Mu2(0, azi, sb - x)          \* additive along the line
          /\ DirClass(lat1, azi, sb) \in {"reg", "cross", "edge", "polestart"}
    \* going out sa and on to sb is the same point of the meridian circle as going sb at once
    /\ Reflect(Mu2(lat1, azi, sa) + Mu2(0, azi, sb - sa)) = Reflect(Mu2(lat1, azi, sb))

Emit == v[1] \notin {"root", "chunk"} => PrintT(ToJson(v))
=============================================================================
