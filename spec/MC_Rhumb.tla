---------------------------- MODULE MC_Rhumb ----------------------------
(* Lattice enumeration for Rhumb / RhumbLine (C09).  root -> chunk c -> vectors.   *)
(*   <<"li", lat1, k1, lat2, k2, d>>   inverse problem (lat1, k1) -> (lat2, k2 + d ulp)           *)
(*   <<"ld", lat1, k1, azi, s>>        direct problem / line position, s in degrees of arc       *)
(* TLC checks the invariants below on the MODEL (consistency of my reading of the documentation)  *)
(* and emits every vector; the driver replays them on the real Rhumb / RhumbLine.                 *)
EXTENDS RhumbLattice, TLC, Json

CONSTANTS Part, NChunks, Dense
VARIABLE v

InChunk(S, C) == {x \in S : x % NChunks = C}

LatSeq == <<-90, -89, -60, -30, -1, 0, 1, 30, 60, 89, 90>>
K1s == IF Dense THEN {0, 10, 180, -180, -170, 350, -540} ELSE {0, -170, 350}
Diffs == IF Dense THEN {0, 1, -1, 50, -50, 90, -90, 179, -179, 180, -180, 181, -181, 360, 540, -540, 720}
         ELSE {0, 1, -1, 50, -90, 179, -179, 180, -180, 181, -181, 360, -540}
\* one ulp either side only where the sign of the reduced difference is at stake (k2 = 0 has no useful ulp)
Ds(k1, k2) == IF k2 # 0 /\ Reduce(k2 - k1) \in {0, -180} THEN {-1, 0, 1} ELSE {0}

VecLi(C) ==
  \E i \in InChunk(0..120, C), k1 \in K1s, D \in Diffs :
    LET lat1 == LatSeq[(i \div 11) + 1]
        lat2 == LatSeq[(i % 11) + 1]
    IN \E d \in Ds(k1, k1 + D) : v' = <<"li", lat1, k1, lat2, k1 + D, d>>

Azis == IF Dense THEN {0, 60, 90, 120, 180, -60, -90, -120, -180, 240, 270, 360, 420, -300}
        ELSE {0, 60, 90, 120, 180, -60, -90, -120, -180, 270, 420}
Dists == IF Dense THEN {0, 1, 2, 10, 30, 60, 88, 90, 92, 120, 178, 180, 182, 270, 358, 360, 362, 540, 720}
         ELSE {0, 1, 2, 30, 60, 90, 120, 178, 180, 182, 270, 360, 362, 540}
DK1s == IF Dense THEN {0, 170, -180, 540} ELSE {0, 170}
VecLd(C) ==
  \E i \in InChunk(0..10, C), k1 \in DK1s, azi \in Azis, s0 \in Dists, sg \in {-1, 1} :
    LET lat1 == LatSeq[i + 1]
        s == sg * s0
    IN /\ (s0 = 0 => sg = 1)
       /\ OnLattice(azi, s)
       /\ v' = <<"ld", lat1, k1, azi, s>>

Init == v = <<"root">>
Next ==
  \/ v = <<"root">> /\ \E c \in 0..(NChunks - 1) : v' = <<"chunk", c>>
  \/ /\ v[1] = "chunk"
     /\ CASE Part = "li" -> VecLi(v[2])
          [] Part = "ld" -> VecLd(v[2])

(* ------------------------------ model invariants ------------------------- *)
\* the inverse model: extent, tie rule, exchange of the end points
LiInv ==
  v[1] = "li" =>
    LET lat1 == v[2]  k1 == v[3]  lat2 == v[4]  k2 == v[5]  d == v[6]
        l == Lon12(k1, k2, d)
        lr == Lon12(k2, k1, -d)               \* the exchanged problem (the ulp now sits on the first longitude)
        c == AziClass(lat1, lat2, l)
        cr == AziClass(lat2, lat1, lr)
        tie == IsTie(k1, k2, d)
    IN \* at most 180 degrees of longitude, never -180
       /\ l[1] \in -180..180 /\ l # <<-180, 0>> /\ (l[1] = -180 => l[2] > 0) /\ (l[1] = 180 => l[2] <= 0)
       \* congruent to the literal difference
       /\ (l[1] - (k2 - k1)) % 360 = 0
       \* exchange: opposite course, except on a tie where both problems go east
       /\ (~tie => lr = ENeg(l) /\ cr = Opposite(c))
       /\ (tie => l = <<180, 0>> /\ lr = <<180, 0>> /\ cr = FlipNS(c) /\ c \in {"E", "NE", "SE", "N", "S", "any"})
       \* same length and opposite area in the exchanged problem
       /\ MerS12(lat2, lat1, lr) = MerS12(lat1, lat2, l) /\ ParS12(lat2, lat1, lr) = ParS12(lat1, lat2, l)
       /\ LET A == AnyArea(lat1, lat2, l)  B == AnyArea(lat2, lat1, lr) IN
          (A # <<>> /\ ~tie) => (B # <<>> /\ B[1] = -A[1])
       \* east-going courses have azimuth in [0, 180]
       /\ (ESgn(l) > 0 => c \in {"E", "NE", "SE", "N", "S", "any"}) /\ (ESgn(l) < 0 => c \in {"W", "NW", "SW", "N", "S", "any"})
       \* periodic in both longitudes
       /\ Lon12(k1 + 360, k2, d) = l /\ Lon12(k1, k2 - 720, d) = l
       \* the deviation differs from the documented rule exactly on ties with lon2 < lon1
       /\ (Lon12SignOfDiff(k1, k2, d) # l) = (tie /\ k2 < k1)

\* the direct model: latitude folding, reversal, direct o inverse on the lattice
LdInv ==
  v[1] = "ld" =>
    LET lat1 == v[2]  k1 == v[3]  azi == v[4]  s == v[5]
        m == Mu2(lat1, azi, s)  lat2 == Reflect(m)  cls == DirClass(lat1, azi, s)
    IN /\ lat2 \in -90..90
       \* same point of the meridian circle
       /\ (m - lat2) % 360 = 0 \/ (m + lat2 - 180) % 360 = 0
       /\ (cls # "cross" => lat2 = m)
       \* negative distance = opposite azimuth; azimuth is periodic
       /\ Mu2(lat1, azi + 180, -s) = m /\ Mu2(lat1, azi + 360, s) = m /\ Mu2(lat1, azi - 360, s) = m
       /\ SphLon12(lat1, azi + 180, -s) = SphLon12(lat1, azi, s) /\ MerLon12(azi + 180) = MerLon12(azi)
       \* a whole turn of the meridian circle gives the same latitude
       /\ (C2(azi) \in {2, -2} => Reflect(Mu2(lat1, azi, s + 360)) = lat2)
       \* direct followed by inverse: same length when the course is a shortest one, never longer otherwise
       /\ (cls = "reg" /\ MerLon12(azi) # <<>>) =>
            LET l == Lon12(k1, k1, 0) IN
            /\ MerS12(lat1, lat2, l) = PInt(Abs(s))
            /\ (s # 0 => AziClass(lat1, lat2, l) = (IF s * C2(azi) > 0 THEN "N" ELSE "S"))
            /\ AnyArea(lat1, lat2, l) = <<0, 0>>
       /\ (cls = "reg" /\ C2(azi) = 0 /\ lat1 \in {0, 60, -60}) =>
            LET dl == SphLon12(lat1, azi, s)[1]  l == Lon12(k1, k1 + dl, 0)  p == ParS12(lat1, lat1, l) IN
            /\ p # <<>> /\ p[1] <= Abs(s) * 1000
            /\ (Abs(dl) < 180 => p = PInt(Abs(s)) /\ (s # 0 => AziClass(lat1, lat1, l) = (IF dl > 0 THEN "E" ELSE "W")))
            /\ (\A x \in NormSet(k1 + dl) : x \in -180..180 /\ (x - (k1 + dl)) % 360 = 0)

Emit == v[1] \notin {"root", "chunk"} => PrintT(ToJson(v))
=============================================================================
