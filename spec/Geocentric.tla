------------------------------ MODULE Geocentric ------------------------------
(***************************************************************************)
(* Geocentric and LocalCartesian (property C07).  Written from              *)
(* Geocentric.hpp, LocalCartesian.hpp and the page "Geocentric coordinates" *)
(* of doc/GeographicLib.dox.in.                                              *)
(*                                                                           *)
(* Part 1 is an exact integer model on a lattice: ellipsoids with dyadic    *)
(* a = 2^22 and f in {0, 1/128, -1/128} (so b, a e^2 are integers),         *)
(* latitudes in {0, +-90}, longitudes multiples of 90, integer heights.     *)
(* There the closed form, the rotation matrix (entries 0, +-1), the local   *)
(* cartesian rigid motion and the admissible answers of Reverse on the axes *)
(* (incl. the centre and the singular disc / segment) are integers.         *)
(* Part 2 names the regimes of Reverse as geometric boxes and the ellipsoid *)
(* family the drivers sample.                                                *)
(***************************************************************************)
EXTENDS Integers, Sequences, FiniteSets

A == 4194304                 \* 2^22, equatorial radius of the lattice ellipsoids (metres)
U == 32768                   \* A / 128
Abs(x) == IF x < 0 THEN -x ELSE x
Sgn(x) == IF x > 0 THEN 1 ELSE IF x < 0 THEN -1 ELSE 0
Max(x, y) == IF x > y THEN x ELSE y

(* ------------------------------------------------------------------------ *)
(* Ellipsoid family.  Index 0..2 are the lattice ellipsoids; the other      *)
(* members (a, f) live in the driver's table, the spec needs only the class.*)
(* ------------------------------------------------------------------------ *)
NFam == 23
Spheres == {0, 17, 18}
Oblates == {1, 3, 5, 7, 9, 11, 13, 15, 19, 21}
Prolates == {2, 4, 6, 8, 10, 12, 14, 16, 20, 22}
\* e > 1/sqrt(2) (f = 0.9) and b = 10 a: the documentation says Reverse "has not been analyzed" there
Extreme == {21, 22}
Class(fi) == IF fi \in Spheres THEN "sph" ELSE IF fi \in Oblates THEN "obl" ELSE "pro"

\* polar semi-axis b = a (1 - f) of the lattice ellipsoids
SemiB(fi) == CASE fi = 0 -> A [] fi = 1 -> A - U [] fi = 2 -> A + U
\* oblate f = 1/128: radius of the singular disc a e^2 = (a^2 - b^2)/a = U (128^2 - 127^2)/128 = 65280 exactly
DiscR == 65280
\* on the disc h = -(1 - e^2) nu, which runs from -(1-f)^2 a (edge, lat 0) to -b (centre, lat 90)
DiscHEdge == 256 * 16129    \* a (1-f)^2 = 4129024
\* prolate f = -1/128: half length of the singular segment (b^2 - a^2)/b = U 257/129 = 65281.98..
SegZ == 65281
ASSUME 129 * SegZ <= U * 257 /\ U * 257 < 129 * (SegZ + 1) /\ DiscR * 128 = U * 255 /\ DiscHEdge = A - 2 * U + 256
\* on the segment h = -nu, which runs from -a (centre, lat 0) to -a^2/b = -4161790.01.. (ends, |lat| -> 90)
SegHEnd == 4161790
ASSUME 129 * SegHEnd <= 128 * A /\ 128 * A < 129 * (SegHEnd + 1)
\* prolate f = -1/128: radius of the cusp circle of the evolute in the equatorial plane (b^2 - a^2)/a = a |e^2| = U 257/128,
\* the twin of DiscR.  It is outside the singular set (which is on the axis), so the answer there is the ordinary exact one.
CuspR == 65792
ASSUME CuspR * 128 = U * 257

(* ------------------------------------------------------------------------ *)
(* Trigonometry on multiples of 90 degrees                                   *)
(* ------------------------------------------------------------------------ *)
CosD(d) == LET m == (d \div 90) % 4 IN CASE m = 0 -> 1 [] m = 1 -> 0 [] m = 2 -> -1 [] m = 3 -> 0
SinD(d) == CosD(d - 90)
\* longitude reduced to [-180, 180]; +180 and -180 are the same meridian
NormLon(d) == LET m == (d + 180) % 360 IN m - 180
SameMeridian(l1, l2) == (l1 - l2) % 360 = 0

(* The WGS84 ellipsoid (Constants.hpp: "the equatorial radius of WGS84 ellipsoid (6378137 m)", "the flattening of   *)
(* WGS84 ellipsoid (1/298.257223563)"): member WGS of the family, what Geocentric::WGS84() and every default `earth`  *)
(* argument must be.  Its polar semi-axis is not an integer, so the exact lattice model covers only its equator.      *)
WGS == 3
WGS84A == 6378137
WGS84RF == <<298, 257223563>>       \* 1/f in units of 1e-9, limbs base 1e9
EqA(fi) == IF fi = WGS THEN WGS84A ELSE A

(* Closed form on the lattice: lat in {-90, 0, 90}, lon multiple of 90, h integer *)
Fwd(fi, lat, lon, h) ==
  IF lat = 0 THEN <<(EqA(fi) + h) * CosD(lon), (EqA(fi) + h) * SinD(lon), 0>>
  ELSE <<0, 0, Sgn(lat) * (SemiB(fi) + h)>>

(* Rotation matrix, row major; columns = east, north, up expressed in X, Y, Z (Geocentric.hpp: v0 = M . v1) *)
Rot(lat, lon) ==
  LET sp == SinD(lat)  cp == CosD(lat)  sl == SinD(lon)  cl == CosD(lon) IN
  << -sl, -cl * sp, cl * cp,
      cl, -sl * sp, sl * cp,
       0,       cp,      sp >>
Col(M, j) == <<M[j], M[3 + j], M[6 + j]>>
Row(M, i) == <<M[3 * i - 2], M[3 * i - 1], M[3 * i]>>
Dot(u, w) == u[1] * w[1] + u[2] * w[2] + u[3] * w[3]
MatVec(M, w) == <<Dot(Row(M, 1), w), Dot(Row(M, 2), w), Dot(Row(M, 3), w)>>
TMatVec(M, w) == <<Dot(Col(M, 1), w), Dot(Col(M, 2), w), Dot(Col(M, 3), w)>>
\* M1^T . M2
TMatMat(M1, M2) == [n \in 1..9 |-> LET i == ((n - 1) \div 3) + 1  j == ((n - 1) % 3) + 1 IN Dot(Col(M1, i), Col(M2, j))]
Det(M) == M[1] * (M[5] * M[9] - M[6] * M[8]) - M[2] * (M[4] * M[9] - M[6] * M[7]) + M[3] * (M[4] * M[8] - M[5] * M[7])
Ident == <<1, 0, 0, 0, 1, 0, 0, 0, 1>>
VSub(p, q) == <<p[1] - q[1], p[2] - q[2], p[3] - q[3]>>
VAdd(p, q) == <<p[1] + q[1], p[2] + q[2], p[3] + q[3]>>

(* ------------------------------------------------------------------------ *)
(* Reverse on the axes: the SET of admissible answers.                       *)
(*   lats: closed range of latitudes in degrees, with the required sign      *)
(*         (sg in {-1, 0, 1}; 2 = no sign requirement)                   *)
(*   lons: admissible longitudes; hlo..hhi: closed range of heights (m)      *)
(*   exact: the answer is a single lattice point (latlo = lathi, hlo = hhi)  *)
(* Rules (Geocentric.hpp, Reverse): least |h|; ties with different          *)
(* latitudes (Z = 0) -> lat > 0; ties with different longitudes (X = Y = 0) *)
(* -> lon = 0; lon in [-180, 180].                                           *)
(* ------------------------------------------------------------------------ *)
\* named rule LonPi: on the negative X axis +180 and -180 are both "in [-180, 180]"
LonsOf(X, Y) == IF X > 0 THEN {0} ELSE IF X < 0 THEN {180, -180} ELSE IF Y > 0 THEN {90} ELSE IF Y < 0 THEN {-90} ELSE {0}
Ans(la, lb, sg, lons, hl, hh) == [latlo |-> la, lathi |-> lb, sg |-> sg, lons |-> lons, hlo |-> hl, hhi |-> hh,
                                  exact |-> (la = lb /\ hl = hh)]
OnAxes(X, Y, Z) == Cardinality({i \in 1..3 : <<X, Y, Z>>[i] # 0}) <= 1

RevSpec(fi, X, Y, Z) ==
  LET R == Abs(X) + Abs(Y)  B == SemiB(fi)  cls == Class(fi) IN
  IF R = 0 /\ Z = 0 THEN
    \* centre.  sphere: every direction is a solution -> named rule CentreSphere: any lat > 0 (the code comment says N pole)
    CASE cls = "sph" -> Ans(0, 90, 1, {0}, -A, -A)
      [] cls = "obl" -> Ans(90, 90, 1, {0}, -B, -B)          \* nearest points are the poles; lat > 0
      [] cls = "pro" -> Ans(0, 0, 0, {0}, -A, -A)            \* nearest points are the equator; lon = 0
  ELSE IF R = 0 THEN
    IF cls = "pro" /\ Abs(Z) <= SegZ
    THEN Ans(IF Z > 0 THEN 0 ELSE -90, IF Z > 0 THEN 90 ELSE 0, Sgn(Z), {0}, -A, -SegHEnd)   \* singular segment: a parallel circle is nearest
    ELSE Ans(90 * Sgn(Z), 90 * Sgn(Z), Sgn(Z), {0}, Abs(Z) - B, Abs(Z) - B)
  ELSE \* Z = 0, R > 0
    IF cls = "obl" /\ R < DiscR THEN Ans(0, 90, 1, LonsOf(X, Y), -B, -DiscHEdge)             \* singular disc: lat > 0
    ELSE IF cls = "obl" /\ R = DiscR THEN Ans(0, 1, 2, LonsOf(X, Y), R - A, R - A)      \* named rule DiscEdge: 0 or round-off above 0
    ELSE Ans(0, 0, 0, LonsOf(X, Y), R - EqA(fi), R - EqA(fi))

\* Forward image of a lattice answer is principal (Reverse must return it) iff it lies outside the singular set
Principal(fi, lat, h) ==
  LET cls == Class(fi) IN
  IF lat = 0 THEN (IF cls = "obl" THEN A + h > DiscR ELSE A + h > 0)
  ELSE (IF cls = "pro" THEN SemiB(fi) + h > SegZ ELSE SemiB(fi) + h > 0)

(* ------------------------------------------------------------------------ *)
(* LocalCartesian: Reset(origin) fixes the state <<P0, R0>>; Forward is the  *)
(* rigid motion p -> R0^T (P - P0), Reverse its inverse followed by Reverse. *)
(* ------------------------------------------------------------------------ *)
LocalState(fi, lat0, lon0, h0) == [P0 |-> Fwd(fi, lat0, lon0, h0), R0 |-> Rot(lat0, lon0)]
LocalFwd(st, P) == TMatVec(st.R0, VSub(P, st.P0))
LocalToGeocentric(st, p) == VAdd(st.P0, MatVec(st.R0, p))
\* multiset of absolute components (a signed permutation matrix preserves it, hence all distances)
AbsBag(w) == LET S == {Abs(w[1]), Abs(w[2]), Abs(w[3])} IN
             <<S, Cardinality({i \in 1..3 : w[i] = 0}), Abs(w[1]) + Abs(w[2]) + Abs(w[3])>>

(* ------------------------------------------------------------------------ *)
(* The optional rotation matrix.  Geocentric::Forward/Reverse and            *)
(* LocalCartesian::Forward/Reverse each have an overload with a trailing     *)
(* std::vector M: "if the length of the vector is 9, fill with the rotation  *)
(* matrix in row-major order".  So a vector of any other length is left      *)
(* alone, and the conversion itself never depends on M.                      *)
(* One call is observed as <<n, w, same>>: n = length of the vector passed   *)
(* (pre-filled with sentinels), w = number of its entries that were written, *)
(* same = every scalar output was written and is bit for bit that of the     *)
(* overload without M (for n = 9 also: M is bit for bit the matrix the       *)
(* record's other laws judge).                                               *)
(* ------------------------------------------------------------------------ *)
MLen == 9
MSizes == {0, 8, 9, 10, 18}
MEntries == {"GF", "GR", "LF", "LR"}      \* Geocentric / LocalCartesian x Forward / Reverse
MWritten(n) == IF n = MLen THEN MLen ELSE 0
MCallOK(m) == m[2] = MWritten(m[1]) /\ m[3]
MFamilyOK(mv) == /\ {mv[i][1] : i \in 1..Len(mv)} = MSizes
                 /\ \A i \in 1..Len(mv) : MCallOK(mv[i])

(* ------------------------------------------------------------------------ *)
(* LocalCartesian as an object.  State = <<fi, lat0, lon0, h0>>: the         *)
(* ellipsoid (family index) and the origin; everything else the object holds *)
(* (P0, R0) is a function of it (LocalState).  Operations, as tuples         *)
(* <<op, fi, lat0, lon0, h0>> (unused arguments are ignored):                *)
(*   c4  LocalCartesian(lat0, lon0, h0, earth)        the general form       *)
(*   c3  LocalCartesian(lat0, lon0, h0)               earth "default Geocentric::WGS84()"               *)
(*   c2  LocalCartesian(lat0, lon0)                   h0 "default 0"         *)
(*   c1  LocalCartesian(earth)                        "Sets lat0 = 0, lon0 = 0, h0 = 0"                 *)
(*   c0  LocalCartesian()                             both defaults          *)
(*   r3  Reset(lat0, lon0, h0)   r2  Reset(lat0, lon0)   "Reset the origin": the ellipsoid stays        *)
(*   cp  copy construction       as  assignment over an unrelated object     *)
(*   fw, rv  Forward / Reverse (const members)                               *)
(* z is the representation of the number 0 (the lattice uses integers, the   *)
(* random histories opaque bit patterns).                                    *)
(* The law the object must satisfy: after ANY history it is indistinguishable *)
(* from a fresh object built by the general form at LcGeneral(history).      *)
(* ------------------------------------------------------------------------ *)
LcCtors == {"c4", "c3", "c2", "c1", "c0"}
LcResets == {"r3", "r2"}
LcKeeps == {"cp", "as", "fw", "rv"}
LcNone == <<-1>>                          \* no object yet
LcApply(st, o, z) ==
  LET op == o[1] IN
  CASE op = "c4" -> <<o[2], o[3], o[4], o[5]>>
    [] op = "c3" -> <<WGS, o[3], o[4], o[5]>>
    [] op = "c2" -> <<WGS, o[3], o[4], z>>
    [] op = "c1" -> <<o[2], z, z, z>>
    [] op = "c0" -> <<WGS, z, z, z>>
    [] op = "r3" -> <<st[1], o[3], o[4], o[5]>>
    [] op = "r2" -> <<st[1], o[3], o[4], z>>
    [] OTHER -> st
\* an operation is enabled on an existing object, a constructor only when there is none
LcEnabled(st, o) == IF o[1] \in LcCtors THEN st = LcNone ELSE st # LcNone /\ o[1] \in LcResets \cup LcKeeps
RECURSIVE LcRunFrom(_, _, _, _)
LcRunFrom(st, ops, i, z) == IF i > Len(ops) THEN st ELSE LcRunFrom(LcApply(st, ops[i], z), ops, i + 1, z)
LcRun(ops, z) == LcRunFrom(LcNone, ops, 1, z)
\* the single general-form constructor call a history is equivalent to: the ellipsoid of its constructor, the origin of
\* its last constructor / Reset
LcLastSet(ops) == CHOOSE i \in 1..Len(ops) : ops[i][1] \in LcCtors \cup LcResets /\ \A j \in (i + 1)..Len(ops) : ops[j][1] \in LcKeeps
LcGeneral(ops, z) ==
  LET e == LcApply(LcNone, ops[1], z)[1]
      k == LcLastSet(ops)
      o == LcApply(<<e, z, z, z>>, ops[k], z)
  IN <<"c4", e, o[2], o[3], o[4]>>
\* lattice value of a query on an object in state st
LcLocal(st) == LocalState(st[1], st[2], st[3], st[4])
\* the exact integer model knows the whole of the lattice ellipsoids and the equator of WGS84
LcModelled(st) == st[1] \in {0, 1, 2} \/ (st[1] = WGS /\ st[2] = 0)

(* Geocentric as an object: Geocentric(a, f), the singleton WGS84(), copies, and the default constructor ("for use by *)
(* NormalGravity") whose object is not initialized.  Init(): "true if the object has been initialized";               *)
(* EquatorialRadius() / Flattening(): "This is the value used in the constructor."                                   *)
GeoForms == {"ctor", "copy", "assign", "wgs84", "default"}
GeoFormFis(form) == IF form = "wgs84" THEN {WGS} ELSE IF form = "default" THEN {-1} ELSE 0..(NFam - 1)

(* ------------------------------------------------------------------------ *)
(* The command-line tool CartConvert (man page): one output line per input   *)
(* line.  Default: geodetic "lat lon h" -> geocentric "X Y Z"; -r reverse;   *)
(* -l lat0 lon0 h0 local cartesian instead of geocentric; -e a f ellipsoid   *)
(* ("By default, the WGS84 ellipsoid is used"); -w longitude first "on input *)
(* and output"; -p prec: "the number of digits after the decimal point for   *)
(* geocentric and local cartesion coordinates and for the height"; "for      *)
(* latitudes and longitudes ... prec + 5" (default 6).                       *)
(* A tool vector <<"t", mode, fi, w, prec, lat0, lon0, h0, a1, a2, a3>> is   *)
(* one input line; ToolWant gives the three expected numbers as              *)
(* <<kind, set of admissible integers>>, kind "len" (metres) / "ang".        *)
(* ------------------------------------------------------------------------ *)
ToolModes == {"gf", "gr", "lf", "lr"}
ToolPoint(mode, fi, lat0, lon0, h0, a1, a2, a3) ==       \* geocentric point of a reverse query
  IF mode = "gr" THEN <<a1, a2, a3>> ELSE LocalToGeocentric(LocalState(fi, lat0, lon0, h0), <<a1, a2, a3>>)
ToolWant(mode, fi, w, lat0, lon0, h0, a1, a2, a3) ==
  IF mode \in {"gf", "lf"} THEN
    LET P == Fwd(fi, a1, a2, a3)
        p == IF mode = "gf" THEN P ELSE LocalFwd(LocalState(fi, lat0, lon0, h0), P)
    IN << <<"len", {p[1]}>>, <<"len", {p[2]}>>, <<"len", {p[3]}>> >>
  ELSE
    LET P == ToolPoint(mode, fi, lat0, lon0, h0, a1, a2, a3)
        a == RevSpec(fi, P[1], P[2], P[3])
        la == <<"ang", {a.latlo}>>  lo == <<"ang", a.lons>>
    IN IF w = 1 THEN <<lo, la, <<"len", {a.hlo}>> >> ELSE <<la, lo, <<"len", {a.hlo}>> >>
\* a reverse query belongs to the tool lattice when its answer is a single lattice point
ToolExactRev(mode, fi, lat0, lon0, h0, a1, a2, a3) ==
  LET P == ToolPoint(mode, fi, lat0, lon0, h0, a1, a2, a3) IN
  OnAxes(P[1], P[2], P[3]) /\ RevSpec(fi, P[1], P[2], P[3]).exact
ToolDigits(kind, prec) == IF kind = "ang" THEN prec + 5 ELSE prec

(* ------------------------------------------------------------------------ *)
(* Regimes of Reverse as geometric boxes (see the doc page: far field,       *)
(* sphere, general cubic outside / inside the evolute of the meridian        *)
(* ellipse where the cubic has three real roots, and the limiting case on    *)
(* the cut locus: equatorial disc R < a e^2 (oblate) / axial segment         *)
(* (prolate)).  The driver reports geometry only:                            *)
(*   ex: binary exponent of |P|/a   ev: -1 inside / +1 outside the evolute   *)
(*   z0: Z = 0   r0: X = Y = 0                                               *)
(* ------------------------------------------------------------------------ *)
Regimes == {"far", "sphere", "outside", "inside", "cutlocus"}
FarEx == 55                   \* |P| >= 2^54 a  >  2 a / epsilon
RegimeOf(cls, ex, ev, z0, r0) ==
  IF ex >= FarEx THEN "far"
  ELSE IF cls = "sph" THEN "sphere"
  ELSE IF ev = 1 THEN "outside"
  ELSE IF ev = -1 THEN (IF (cls = "obl" /\ z0) \/ (cls = "pro" /\ r0) THEN "cutlocus" ELSE "inside")
  ELSE "boundary"
RegimesOfClass(cls) == IF cls = "sph" THEN {"far", "sphere"} ELSE {"far", "outside", "inside", "cutlocus"}
\* sign pattern (sx, sy, sz in {-1,0,1}; 0 = coordinate exactly zero) that a box of the regime can have
Compatible(reg, cls, sx, sy, sz) ==
  LET r0 == sx = 0 /\ sy = 0   z0 == sz = 0 IN
  /\ reg \in RegimesOfClass(cls)
  /\ CASE reg = "far" -> ~(r0 /\ z0)
       [] reg = "sphere" -> TRUE
       [] reg = "outside" -> ~(r0 /\ z0)
       [] reg = "inside" -> IF cls = "obl" THEN ~z0 ELSE ~r0
       [] reg = "cutlocus" -> IF cls = "obl" THEN z0 ELSE r0
\* scale parameter k of a box (meaning per regime is documented in drv_geoc.cpp: box_point)
Scales(reg) == CASE reg = "far" -> {0, 6, 60, 400, 900}
                 [] reg = "sphere" -> {-66, -30, -8, -1, 0, 1, 20, 53}
                 [] reg = "outside" -> {-20, -3, 0, 3, 8, 30, 40}
                 [] reg = "inside" -> {0, 1, 5, 20, 60}
                 [] reg = "cutlocus" -> {0, 1, 5, 20, 60}
=============================================================================
