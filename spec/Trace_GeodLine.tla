---------------------------- MODULE Trace_GeodLine ----------------------------
(* Validates observations of output masks and line objects (C12).             *)
EXTENDS GeodLine, TraceKit

CONSTANTS TolAng,    \* mask independence ("round-off"): units of 3.6e-14 degree (1e-16 of a circle)
          TolLen,    \* units of 1e-16 a  (a = equatorial radius)
          TolScale,  \* units of 1e-16 (dimensionless geodesic scales)
          TolArea,   \* units of 1e-16 of the ellipsoid's area
          AccLat,    \* documented accuracy of two direct solutions (2 x 40 nm) in units of 1e-16 degree
          AccLon,    \* the same in units of 3.6e-14 degree (longitude residuals are scaled by cos(lat))
          AccLen,    \* the same in units of 1e-16 a
          ClairautMin, \* guard of the turns law: |sin azi1| cos lat1 (units of 1e-9) at least this, i.e. the geodesic keeps away from the poles
          TolTurn    \* turns law (decides the multiple of 360 degrees only): units of 1e-9 degree
VARIABLE l

PosOK(r) ==
  LET caps == CapsOf(r.ctor, Set(r.caps))
      th == Third(r.ctor, caps, r.so)
      p == Position(caps, r.am, Set(r.om))
  IN /\ r.init /\ r.capsobs = Num(caps)
     /\ r.dnum = th[1] /\ r.anum = th[2]
     /\ r.ret = p[1] /\ Set(r.w) = p[2] /\ r.pairok

Tol(i) == CASE i \in {1, 2, 3} -> TolAng [] i \in {4, 5} -> TolLen [] i \in {6, 7} -> TolScale [] OTHER -> TolArea
ValOK(r) ==
  LET caps == CapsOf("line", Set(r.caps))
      p == Position(caps, r.am, Set(r.om))
  IN /\ r.ret = p[1] /\ Set(r.w) = p[2] /\ r.pairok
     /\ \A i \in 1..8 : r.d[i] <= Tol(i)
     /\ r.dret <= TolAng
     /\ Set(r.gw) = GenDirectWritten(Set(r.om)) /\ r.gret <= TolAng
     /\ \A i \in 1..8 : r.g[i] <= Tol(i)
     \* arc <-> distance and third-point laws: two solutions of the direct problem, documented accuracy each
     /\ r.ad[1] <= AccLat /\ r.ad[2] <= AccLon /\ r.ad[3] <= AccLon
     /\ r.tp[1] <= AccLat /\ r.tp[2] <= AccLon /\ r.tp[3] <= AccLat /\ r.tp[4] <= AccLon
     /\ r.tp[5] <= AccLen
     \* LONG_UNROLL ("unroll lon2 instead of wrapping it into [-180, 180]"): the unrolled longitude wraps to the longitude obtained
     \* WITHOUT the bit (u[1] line, u[2] GenDirect; round-off), and lon2 - lon1 is the change of longitude accumulated along the
     \* geodesic ("how many times and in what sense the geodesic encircles the ellipsoid"; u[3], u[4]).  The accumulated change is
     \* well defined only when no sub-step passes close to a pole: guard on the Clairaut constant of the INPUT.
     /\ r.u[1] <= TolAng /\ r.u[2] <= TolAng
     /\ (r.cl >= ClairautMin => r.u[3] <= TolTurn /\ r.u[4] <= TolTurn)
     \* InverseLine through point 1 and the point just computed: Position(Distance()) and ArcPosition(Arc()) reproduce point 2
     \* (an inverse and a direct solution, documented accuracy each); Distance(), Arc(), Azimuth() are s12, a12, azi1 of Inverse
     /\ r.tpi[1] <= AccLat /\ r.tpi[2] <= AccLon /\ r.tpi[3] <= AccLat /\ r.tpi[4] <= AccLon
     /\ r.tpi[5] <= AccLen /\ r.tpi[6] <= TolAng /\ r.tpi[7] <= TolAng
     \* every constructor echoes point 1: Latitude(), Longitude(), Azimuth()
     /\ \A i \in 1..8 : r.echo[i] <= TolAng

\* inverse problem: d = <<s12, azi1, azi2, m12, M12, M21, S12>> against the call with mask ALL
TolInv(i) == CASE i \in {2, 3} -> TolAng [] i \in {1, 4} -> TolLen [] i \in {5, 6} -> TolScale [] OTHER -> TolArea
InvOK(r) ==
  /\ r.ret /\ Set(r.w) = GenInverseWritten(Set(r.om)) /\ r.pairok
  /\ \A i \in 1..7 : r.d[i] <= TolInv(i)
  /\ r.dret <= TolAng
\* rhumb inverse: d = <<s12, azi12, S12>>
RInvOK(w, d, om) ==
  /\ Set(w) = RhumbInverseWritten(Set(om))
  /\ d[1] <= TolLen /\ d[2] <= TolAng /\ d[3] <= TolArea
\* rhumb direct / RhumbLine: d = <<lat2, lon2 (modulo 360), S12>> against Rhumb::GenDirect with mask ALL.  The round-off of an
\* unrolled longitude is relative to its size (turns = circles swept + 1).  Leaving a pole (ps, from the INPUT latitude) the
\* longitude and the area of the spiral are indeterminate (NaN or infinite, rule PoleStartIndeterminate of RhumbLattice.tla):
\* only the written set and the latitude are judged there.
RDirOK(w, d, r) ==
  /\ Set(w) = RhumbDirectWritten(Set(r.om))
  /\ d[1] <= TolAng
  /\ (~r.ps => d[2] <= TolAng * r.turns /\ d[3] <= TolArea)
RValOK(r) ==
  /\ r.turns >= 1
  /\ RDirOK(r.wd, r.dd, r) /\ RDirOK(r.wl, r.dl, r) /\ RInvOK(r.wi, r.di, r.om)
  \* mask ALL with and without LONG_UNROLL
  /\ r.ru[1] <= TolAng /\ (~r.ps => r.ru[2] <= TolAng * r.turns /\ r.ru[3] <= TolArea)
\* inline overloads: every output argument of overload (fam, n) is written (a line: if it has the capability and can locate the
\* point) with the value of the general routine; d as in val, da = azi1 of the inverse problem
OvOK(r) ==
  LET exp == OverloadWritten(r.fam, r.n, Set(r.caps)) IN
  /\ r.known /\ r.fam \in OvFamilies /\ r.n \in OvArities(r.fam)
  /\ (OvReturns(r.fam) => r.ret = exp[1])
  /\ Set(r.w) = exp[2] /\ r.pairok
  /\ \A i \in 1..8 : r.d[i] <= Tol(i)
  /\ r.da <= TolAng /\ r.dret <= TolAng

Obligation(r) ==
  CASE r.e = "pos" -> PosOK(r)
    [] r.e = "gd" -> r.ret /\ Set(r.w) = GenDirectWritten(Set(r.om)) /\ r.pairok
    [] r.e = "gi" -> InvOK(r)
    [] r.e = "inv" -> InvOK(r)
    [] r.e = "rval" -> RValOK(r)
    [] r.e = "ov" -> OvOK(r)
    [] r.e = "rd" -> Set(r.w) = RhumbDirectWritten(Set(r.om))
    [] r.e = "rl" -> Set(r.w) = RhumbDirectWritten(Set(r.om))
    [] r.e = "ri" -> RInvOK(r.w, r.d, r.om)
    [] r.e = "uninit" -> ~r.ret0 /\ r.w0 = 0 /\ ~r.ret1 /\ r.w1 = 0 /\ ~r.init
    [] r.e = "val" -> ValOK(r)
    [] OTHER -> FALSE

Expected(r) ==
  CASE r.e = "pos" -> LET caps == CapsOf(r.ctor, Set(r.caps)) IN <<Num(caps), Third(r.ctor, caps, r.so), Position(caps, r.am, Set(r.om))>>
    [] r.e = "val" -> Position(CapsOf("line", Set(r.caps)), r.am, Set(r.om))
    [] r.e = "ov" -> IF r.fam \in OvFamilies /\ r.n \in OvArities(r.fam) THEN OverloadWritten(r.fam, r.n, Set(r.caps)) ELSE <<>>
    [] OTHER -> <<>>

Init == l = 1 /\ KitInit
Next == /\ l <= NT
        /\ Require(Obligation(T[l]), l, "line-" \o T[l].e, Expected(T[l]))
        /\ Consumed(l)
        /\ l' = l + 1
=============================================================================
