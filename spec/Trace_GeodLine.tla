---------------------------- MODULE Trace_GeodLine ----------------------------
(* Validates observations of output masks and line objects (C12).             *)
EXTENDS GeodLine, TraceKit

CONSTANTS TolAng,    \* mask independence ("round-off"): units of 3.6e-14 degree (1e-16 of a circle)
          TolLen,    \* units of 1e-16 a  (a = equatorial radius)
          TolScale,  \* units of 1e-16 (dimensionless geodesic scales)
          TolArea,   \* units of 1e-16 of the ellipsoid's area
          AccLat,    \* documented accuracy of two direct solutions (2 x 40 nm) in units of 1e-16 degree
          AccLon,    \* the same in units of 3.6e-14 degree (longitude residuals are scaled by cos(lat))
          AccLen     \* the same in units of 1e-16 a
VARIABLE l

PosOK(r) ==
  LET caps == CapsOf(r.ctor, Set(r.caps))
      th == Third(r.ctor, caps, r.so)
      p == Position(caps, r.am, Set(r.om))
  IN /\ r.init /\ r.capsobs = Num(caps)
     /\ r.dnum = th[1] /\ r.anum = th[2]
     /\ r.ret = p[1] /\ Set(r.w) = p[2] /\ r.pairok

Tol(i) == CASE i \in {1, 2, 3} -> TolAng [] i \in {4, 5} -> TolLen [] i \in {6, 7} -> TolScale [] OTHER -> TolArea
ValOK(r) ==
  LET caps == CapsOf("line", Set(r.caps))
      p == Position(caps, r.am, Set(r.om))
  IN /\ r.ret = p[1] /\ Set(r.w) = p[2] /\ r.pairok
     /\ \A i \in 1..8 : r.d[i] <= Tol(i)
     /\ r.dret <= TolAng
     /\ Set(r.gw) = GenDirectWritten(Set(r.om)) /\ r.gret <= TolAng
     /\ \A i \in 1..8 : r.g[i] <= Tol(i)
     \* arc <-> distance and third-point laws: two solutions of the direct problem, documented accuracy each
     /\ r.ad[1] <= AccLat /\ r.ad[2] <= AccLon /\ r.ad[3] <= AccLon
     /\ r.tp[1] <= AccLat /\ r.tp[2] <= AccLon /\ r.tp[3] <= AccLat /\ r.tp[4] <= AccLon
     /\ r.tp[5] <= AccLen

Obligation(r) ==
  CASE r.e = "pos" -> PosOK(r)
    [] r.e = "gd" -> r.ret /\ Set(r.w) = GenDirectWritten(Set(r.om)) /\ r.pairok
    [] r.e = "gi" -> r.ret /\ Set(r.w) = GenInverseWritten(Set(r.om)) /\ r.pairok
    [] r.e = "rd" -> Set(r.w) = RhumbDirectWritten(Set(r.om))
    [] r.e = "rl" -> Set(r.w) = RhumbDirectWritten(Set(r.om))
    [] r.e = "ri" -> Set(r.w) = RhumbInverseWritten(Set(r.om))
    [] r.e = "uninit" -> ~r.ret0 /\ r.w0 = 0 /\ ~r.ret1 /\ r.w1 = 0 /\ ~r.init
    [] r.e = "val" -> ValOK(r)
    [] OTHER -> FALSE

Expected(r) ==
  CASE r.e = "pos" -> LET caps == CapsOf(r.ctor, Set(r.caps)) IN <<Num(caps), Third(r.ctor, caps, r.so), Position(caps, r.am, Set(r.om))>>
    [] r.e = "val" -> Position(CapsOf("line", Set(r.caps)), r.am, Set(r.om))
    [] OTHER -> <<>>

Init == l = 1 /\ KitInit
Next == /\ l <= NT
        /\ Require(Obligation(T[l]), l, "line-" \o T[l].e, Expected(T[l]))
        /\ Consumed(l)
        /\ l' = l + 1
=============================================================================
