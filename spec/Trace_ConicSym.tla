---------------------------- MODULE Trace_ConicSym ----------------------------
(* Validates observations of PolarStereographic / LambertConformalConic /      *)
(* AlbersEqualArea (C11) against ConicSym.tla.                                  *)
(*  lattice lines (ctor sets sym anc eqv): the expected outcome / transformation *)
(*    / anchor value is recomputed here from the logged inputs;                 *)
(*  law lines (ob pt lim ss sg): residuals reduced by the driver to integers    *)
(*    ("rel" = 1e-18 of a, "fd" = 1e-12, angles in 1e-6 / 1e-15 degree);         *)
(*  every tolerance, guard and decision is here.  Each record is judged by a    *)
(*  list of named clauses; the first failing clause names the law.              *)
EXTENDS ConicSym, TraceKit

CONSTANTS
  Tol,       \* 10 nm / a_WGS84 in 1e-18: "The error in the projection is less than about 10 nm (10 nanometers), true distance"
             \* (LambertConformalConic.hpp, Forward and Reverse); the property: "mutually inverse to about 10 nm"
  TolK,      \* 7e-15 in 1e-18: "the relative error in the scale is less than 7 x 10^-15" (LambertConformalConic.hpp, sin/cos ctor)
  TolLat0,   \* 4.5e-14 degree in 1e-15 degree: "the error in the latitude of origin is less than 4.5 x 10^-14 d" (both headers)
  TolFD,     \* finite differences (h = 2^-12 degree, |lat| <= 89): truncation (h/cos lat)^2 <= 6e-8, round-off 2^-52 |x|/(h M k) <= 1e-9;
             \* 1e-6 in 1e-12.  Deliberately coarse: anchors the DEFINITION of k and gamma, not their accuracy.
  CondMult,  \* Albers only: the inverse of an equal-area map is ill conditioned towards the poles (q_p - q ~ cos^2 lat) and x, y are
             \* rounded to doubles; the true-distance bound is Tol + CondMult * max(2^-52/cos lat, 2^-52 max(|x|,|y|) max(k,1/k)/a)
  LonUlps,   \* the closed form is evaluated at the exact lon - lon0; the library rounds it (AngDiff), converts to radians and multiplies
             \* by n: LonUlps ulps of lon - lon0 (in true distance, "lul") are representation, not error
  OcnMax,    \* closed form of a two-parallel projection is used only where the driver's long double n has |dn| <= OcnMax 1e-18
  OcnMult    \* ... and its error may act over OcnMult radii
VARIABLE l

Le(x, t) == x >= 0 /\ x <= t              \* residuals are non-negative; NaN (2000000001) and -1 (not evaluated) fail
Big == 100000000

(* --------------------------- lattice lines ------------------------------- *)
CtorRec(r) == [fam |-> r.fam, ct |-> r.ct, P1 |-> r.P1, P2 |-> r.P2, kc |-> r.kc, fc |-> r.fc, ac |-> r.ac]
CtorClauses(r) ==
  LET o == CtorOutcome(CtorRec(r))
      \* NearlyOppositePoles (named): parallels at / one ulp inside opposite poles are admissible by the header but describe a
      \* numerically singular cylinder of zero radius; nothing is required of the object
      nop == r.ct = 2 /\ Abs(r.P1[1]) = 90 /\ Abs(r.P2[1]) = 90 /\ r.P1[1] = -r.P2[1]
  IN
  << <<"outcome", r.out = o>>,
     <<"usable", o = "ok" /\ ~nop => r.fin /\ r.insp>> >>

\* One SetScale call (kc = 7: the scale argument omitted) on an object built with a scale that no call writes (k0c).
\* "unch": every inspector and the outputs of Forward / Reverse at fixed points are bit for bit what they were before the call.
SetsClauses(r) ==
  LET o == SetScaleOutcome(r.fam, r.pol, r.lat, r.kc) IN
  << <<"codes", r.kc \in KCallCodes /\ r.k0c \in KObjCodes>>,
     <<"outcome", r.out = o>>,
     <<"scale", o = "ok" => Le(r.ksr, TolK)>>,
     <<"unchanged", o = "throw" => r.unch>>,
     <<"origin", r.lat0b>>,                                              \* SetScale never moves the latitude of origin
     <<"central", Le(r.kcr, TolK)>> >>                                   \* CentralScale stays "the scale on the latitude of origin"

\* A path of SetScale calls on one object (ConicSym: ScaleAfter).  After every call: the outcome is the specification's; a call
\* that throws leaves the whole observable state as it was; the scale in force is the one prescribed by the last call that
\* returned (at its latitude, to TolK) or, if none did, the object is bit for bit the freshly constructed one.
SeqClauses(r) ==
  LET n == Len(r.calls)
      Out(i) == SetScaleOutcome(r.fam, r.pol, <<r.calls[i][1], r.calls[i][2]>>, r.calls[i][3])
  IN
  << <<"shape", n >= 1 /\ Len(r.eff) = n /\ Len(r.out) = n /\ Len(r.unch) = n /\ Len(r.lat0b) = n /\ Len(r.efr) = n /\ Len(r.kcr) = n
                /\ r.k0c \in KObjCodes /\ \A i \in 1..n : Len(r.calls[i]) = 3 /\ r.calls[i][3] \in KCallCodes>>,
     <<"outcome", \A i \in 1..n : r.out[i] = (IF Out(i) = "ok" THEN 1 ELSE 0)>>,
     <<"effective", \A i \in 1..n : r.eff[i] = ScaleAfter(r.fam, r.pol, r.calls, i)>>,
     <<"unchanged", \A i \in 1..n : Out(i) = "throw" => r.unch[i] = 1>>,
     <<"origin", \A i \in 1..n : r.lat0b[i] = 1>>,
     <<"scale", \A i \in 1..n : Le(r.efr[i], TolK)>>,
     <<"central", \A i \in 1..n : Le(r.kcr[i], TolK)>> >>              \* CentralScale stays "the scale on the latitude of origin"

\* Albers allowance (see CondMult); -1 = vacuous
AlbAllow(r) == IF r.amp >= Big \/ r.cnd >= Big \/ r.amp < 0 \/ r.cnd < 0 THEN -1 ELSE CondMult * Max(r.amp, r.cnd)
Within(x, base, r, isalb) ==
  IF isalb THEN (LET a == AlbAllow(r) IN IF a < 0 THEN x >= 0 ELSE Le(x, base + a)) ELSE Le(x, base)

SymClauses(r) ==
  LET g == r.g
      in == [p1 |-> r.bin[1], p2 |-> r.bin[2], s |-> r.s, lat |-> r.bin[3], lon |-> r.bin[4], lon0 |-> r.bin[5]]
      out == ApplyIn(g, in)
      alb == r.fam = "alb"
  IN
  << <<"applicable", Applicable(g, r.fam)>>,
     <<"inputs", r.tin = <<out.p1, out.p2, out.s, out.lat, out.lon, out.lon0>> >>,
     <<"prediction", r.rep = Rep(g, r.fam, r.s)>>,
     <<"finite", r.fin>>,
     \* both calls are Forward evaluations of the same point of the same projection: each within Tol
     <<"xy", Within(r.d, 2 * Tol, r, alb)>>,
     <<"gamma", Within(r.dgm, 2 * Tol, r, alb)>>,
     <<"k", Within(r.dkk, 2 * Tol, r, alb)>>,
     \* the group acts on the inverse mapping too: Reverse of the transformed image by the transformed object
     <<"rfinite", r.rfin>>,
     <<"rxy", Within(r.rd, 2 * Tol, r, alb)>>,
     <<"rgamma", Within(r.rdg, 2 * Tol, r, alb)>>,
     <<"rk", Within(r.rdk, 2 * Tol, r, alb)>> >>

AncDesc(r) == [fam |-> r.fam, ct |-> r.ct, p1 |-> r.p1, p2 |-> r.p2, kc |-> r.kc]
AncClauses(r) ==
  LET d == AncDesc(r)
      an == <<r.qty, r.num, r.den, r.unit>>
      mag == 1 + (Abs(r.num) \div Abs(r.den))          \* the anchor values are O(1..200): tolerance relative to the value
      sq == r.qty \in {"xx", "kk"}                       \* squares: twice the relative error
  IN
  << <<"desc", DescOK(d) /\ r.fi \in {3, 4}>>,
     <<"anchor", an \in Anchors(Canon(d), r.lat, r.dl)>>,
     <<"finite", r.out = "ok" /\ r.fin>>,
     \* gamma: radians, plus two ulps of an angle of up to 180 degrees
     <<"value", Le(r.res, IF r.qty = "g" THEN 2 * Tol ELSE (IF sq THEN 2 ELSE 1) * Tol * mag)>>,
     \* Reverse of the image returns the k and gamma "at point" too: the same anchor binds them (at a pole the longitude, and
     \* with it gamma, is not determined by the point)
     <<"rfinite", r.rfin>>,
     <<"rvalue", r.qty \in {"k", "kk"} \/ (r.qty = "g" /\ Abs(r.lat) # 90) =>
                   Le(r.rres, IF r.qty = "g" THEN 2 * Tol ELSE (IF sq THEN 2 ELSE 1) * Tol * mag)>>,
     <<"overloads", r.ovl>> >>

EqvClauses(r) ==
  LET A == [fam |-> r.fa, ct |-> r.cta, p1 |-> r.a1, p2 |-> r.a2, kc |-> r.kc]
      B == [fam |-> r.fb, ct |-> r.ctb, p1 |-> r.b1, p2 |-> r.b2, kc |-> r.kc]
      alb == r.fa = "alb"
  IN
  << <<"desc", DescOK(A) /\ DescOK(B) /\ Equivalent(A, B)>>,
     <<"finite", r.fin>>,
     <<"xy", Within(r.d, 2 * Tol, r, alb)>>,
     <<"k", Within(r.dk, 2 * Tol, r, alb)>>,
     <<"gamma", Within(r.dg, 2 * Tol, r, alb)>>,
     <<"origin", Le(r.dl0, 2 * TolLat0) /\ Le(r.dk0, 2 * TolK)>>,
     \* Reverse of the same point of the plane by the two objects
     <<"reverse", Within(r.dr, 2 * Tol, r, alb)>>,
     <<"rk", Within(r.drk, 2 * Tol, r, alb)>>,
     <<"rgamma", Within(r.drg, 2 * Tol, r, alb)>> >>

(* ----------------------------- law lines --------------------------------- *)
\* LambertConformalConic.hpp: the origin / scale of a two-parallel projection are accurate "if dlat = abs(lat2 - lat1) <= 160
\* and max(abs(lat1), abs(lat2)) <= 90 - min(0.0002, 2.2e-6 (180 - dlat), 6e-8 dlat^2) (in degrees)"; in 1e-6 degree:
DocGuard(r) ==
  LET dl == r.sepq
      mx == Max(Abs(r.p1q), Abs(r.p2q))
      dd == dl \div 10000
      t1 == 200
      t2 == (22 * ((180000000 - dl) \div 1000)) \div 10000
      t3 == (6 * dd * dd) \div 1000000
      \* NearPoleGuard (named): the margin of the header is met with room for |f| <= 1/298.257 (family index 0..4: WGS84, its prolate
      \* mirror, spheres); at |f| = 1/150 the origin error reaches 0.76 of the bound, at 0.02 it is 3.3 x, at 0.2 584 x when a parallel is
      \* within 0.001 degree of a pole (observation, notes/C11.md), so for index >= 5 the laws bind up to |stdlat| <= 89.9 only
  IN r.same \/ (dl <= 160000000 /\ mx <= 90000000 - Min(t1, Min(t2, t3)) /\ (r.fi >= 5 => mx <= 89900000))

\* the closed form as evaluated by the driver is usable
OrcOK(r) == r.ev /\ (r.same \/ (r.sepq >= 500000 /\ r.ocn >= 0 /\ r.ocn <= OcnMax)) /\ DocGuard(r)
\* ExtSlack (named): the 10 nm figure of the header carries no restriction on f; for |f| >= 0.05 (family index >= 11) and very wide
\* cones up to 17 nm was observed on the unchanged tree (notes/C11.md): those ellipsoids are held to 2 x 10 nm
OrcTol(r) == (IF r.fi >= 11 THEN 2 ELSE 1) * Tol + OcnMult * r.ocn + (IF r.lul >= 0 /\ r.lul < Big THEN LonUlps * r.lul ELSE 0)

PtClauses(r) ==
  LET alb == r.fam = "alb"
      wrap == r.gq <= 179900000                 \* the cone angle stays inside (-180, 180): Reverse can identify the point
      gtol == IF r.gul >= 0 /\ r.gul < Big THEN 4 * r.gul ELSE 0     \* gamma = k0^2 n (lon - lon0) is returned in degrees: four ulps of |gamma|
      \* finite differences: away from the poles and the cut, and 0.01 <= k <= 100 (round-off of the quotient grows with 1/k)
      \* and x, y not so large that their admitted error (CondMult x amp, amp <= 1e-13 a in true distance) shows in the quotient:
      \* 16 x 1e-13 / (2 h) = 1.9e-7
      fd == Abs(r.latq) <= 89000000 /\ Abs(r.dlq) <= 179000000 /\ r.kq >= -2000000 /\ r.kq <= 2000000 /\ r.amp >= 0 /\ r.amp <= 100000
      \* the point (the point returned by Reverse) is the pole at which the projection is polar: the only poles with a finite,
      \* non-zero scale (elsewhere the true scale at a pole is 0 or infinite and Forward returns "large but finite" stand-ins)
      polar1 == r.pol /\ r.cosq = 0 /\ ((r.sgn = 1) <=> (r.latq > 0))
      polar2 == r.pol /\ r.cosq2 = 0 /\ ((r.sgn = 1) <=> (r.lat2q > 0))
      gtol3 == IF r.gul3 >= 0 /\ r.gul3 < Big THEN 4 * r.gul3 ELSE 0
  IN
  << <<"fin", r.fin>>,                                                   \* "large but finite" also where the image is at infinity
     <<"rfin", r.rfin /\ r.rng>>,                                        \* Reverse: finite, lat in [-90,90], lon in [-180,180]
     <<"rt", wrap => Within(r.rt, 2 * Tol, r, alb)>>,                    \* Reverse o Forward, true distance
     <<"rtg", wrap => Within(r.rtg, 2 * Tol + gtol, r, alb)>>,           \* gamma, k of Reverse = gamma, k of Forward
     <<"rtk", wrap => Within(r.rtk, 2 * Tol, r, alb)>>,
     \* PoleScale: the weight cos(lat) of the two laws above (d ln k / d lat ~ 1 / cos lat away from the centre of a polar aspect)
     \* vanishes exactly at a pole.  Where the scale at the pole is finite and not zero (the polar aspects: PolarStereographic.hpp CentralScale
     \* "is the scale at the pole"; the polar LCC; the azimuthal Albers) k is smooth there, the 10 nm position error does not show
     \* in it, and the k that Reverse returns for the image of the pole is the k that Forward returned, to the scale accuracy.
     <<"pole-k", polar1 => Le(r.rtk0, 2 * TolK)>>,
     \* CentralScale is "the scale on the latitude of origin" (LCC, Albers) / "the scale at the pole" (PS): Reverse returning
     \* exactly that latitude returns that scale (the latitude of origin is the latitude of minimum scale: d k / d lat = 0)
     <<"origin-k", r.rk0 # -1 => Le(r.rk0, 2 * TolK)>>,
     <<"ovl", r.ovf /\ r.ovr>>,                                          \* "Forward / Reverse without returning the convergence and scale"
     <<"tr", wrap => Within(r.tr, 2 * Tol, r, alb)>>,                    \* Forward o Reverse on an image point
     \* gamma, k of Reverse = gamma, k of Forward at the point that Reverse returned (both "at point"); same weights; at a pole
     \* of a polar aspect unweighted (PoleScale), gamma relative to the longitude that Reverse chose
     <<"trg", wrap => Within(r.trg, 2 * Tol + gtol, r, alb)>>,
     <<"trk", wrap => Within(r.trk, 2 * Tol, r, alb)>>,
     <<"pole-rk", polar2 => Le(r.trk0, 2 * TolK)>>,
     <<"pole-rg", polar2 => Le(r.trg0, 2 * Tol + gtol3)>>,
     <<"df", OrcOK(r) => Within(r.df, OrcTol(r), r, alb)>>,              \* the textbook closed form
     <<"dg", OrcOK(r) => Within(r.dg, OrcTol(r) + gtol, r, alb)>>,
     <<"dk", OrcOK(r) /\ r.dk # -1 => Within(r.dk, OrcTol(r), r, alb)>>,
     <<"cfn", fd => Le(r.cfn, TolFD)>>,                                  \* d(x,y)/d(north) = (k or 1/k) (-sin gamma, cos gamma)
     <<"cfe", fd => Le(r.cfe, TolFD)>>,                                  \* d(x,y)/d(east) = k (cos gamma, sin gamma)
     <<"det", fd => Le(r.det, TolFD)>> >>                                \* Jacobian determinant k^2 (conformal) / 1 (equal area)

ObClauses(r) ==
  IF r.out # "ok" THEN << <<"ctor", FALSE>> >>          \* the random generator only makes admissible calls
  ELSE
  LET alb == r.fam = "alb"
      guard == DocGuard(r)
      \* k on a standard parallel; a polar parallel of a two-parallel form has zero length and carries no scale (named guard ZeroLength)
      \* WideSlack (named): the headers state the origin / scale accuracy without restricting f; it is met up to |f| = 0.1 and
      \* exceeded by a factor < 2 at f = 0.2, -0.25 (family index >= 15; observation in notes/C11.md): those are held to 4 x, and
      \* |f| = 0.05, 0.1 (index 11..14; observed 0.82 x) to 2 x
      w == IF r.fi >= 15 THEN 4 ELSE IF r.fi >= 11 THEN 2 ELSE 1
      ks(v, zl, cn) == zl \/ (IF alb THEN (cn >= Big \/ cn < 0 \/ Le(v, w * TolK + CondMult * cn)) ELSE Le(v, w * TolK))
      slack == TolLat0
  IN
  << <<"insp", r.insp>>,
     <<"ks1", guard => ks(r.ks1, r.zl1, r.kcn1)>>,
     <<"ks2", guard => ks(r.ks2, r.zl2, r.kcn2)>>,
     <<"between", r.blo >= -slack /\ r.bhi >= -slack>>,                  \* "lies between stdlat1 and stdlat2"
     <<"kc", Le(r.kc, TolK)>>,                                           \* scale on the latitude of origin = CentralScale
     <<"kmin", guard => r.kmin <= w * TolK>>,                                \* "the latitude of minimum scale"
     <<"y0", Le(r.y0, Tol)>>,                                            \* origin maps to (0, 0)
     \* origin against the closed form, where the driver's evaluation is well conditioned (cos lat0 >= 0.2)
     <<"dl0", guard /\ r.oev /\ r.c0q >= 200000000 /\ (r.same \/ r.sepq >= 500000) => Le(r.dl0, w * TolLat0)>>,
     \* the one-parallel object (OriginLatitude, CentralScale) is the same projection: two Forward results + the documented
     \* origin / scale errors acting over the distance from the origin (eqd, 1e-6 radii)
     <<"eq1", guard /\ r.eq1 # -1 /\ r.eqd < 100000000 =>
                Within(r.eq1, 2 * Tol + ((TolK \div 1000) * (r.eqd \div 1000)) + (TolLat0 * 18), r, alb)>>,
     <<"sw", r.swd # -1 => Within(r.swd, 2 * Tol, r, alb)>>,             \* argument order
     <<"sc", r.scd # -1 => Within(r.scd, 2 * Tol, r, alb)>> >>           \* sin/cos form

LimClauses(r) ==
  LET alb == r.lk \in {"cea", "az"}
      gtol == IF r.gul >= 0 /\ r.gul < Big THEN 4 * r.gul ELSE 0
      def == r.lk # "merc" \/ r.cosq > 0          \* the isometric latitude is infinite at a pole
  IN
  << <<"fin", r.fin>>,
     \* two independent evaluations of the same mapping (the other class is held to the same 10 nm)
     <<"xy", def => Within(r.d, 2 * Tol, r, alb)>>,
     <<"k", def /\ r.dk # -1 => Within(r.dk, 2 * Tol, r, alb)>>,
     <<"gamma", Within(r.dg, 2 * Tol + gtol, r, alb)>>,
     <<"reverse", Within(r.dr, 2 * Tol, r, alb)>>,
     \* gamma, k returned by Reverse of the polar LCC and of PolarStereographic for the same point (PoleScale at the pole)
     <<"rk", r.drk # -1 => Within(r.drk, 2 * Tol, r, alb)>>,
     <<"rgamma", r.drg # -1 => Within(r.drg, 2 * Tol + gtol, r, alb)>>,
     <<"pole-rk", r.drk0 # -1 /\ r.cosq = 0 /\ r.np = (r.latq > 0) => Le(r.drk0, 2 * TolK)>> >>

SsClauses(r) ==
  IF r.out = "ctor-throw" THEN << <<"ctor", FALSE>> >>
  ELSE IF r.out # "ok" THEN << <<"outcome", FALSE>> >>
  ELSE
  LET alb == r.fam = "alb"
      \* the pole at which the random object is polar, as ConicSym codes it
      polc == IF r.fam = "ps" THEN "np" ELSE IF r.pol THEN (IF r.sgn = 1 THEN "np" ELSE "sp") ELSE "no"
      bo == SetScaleOutcome(r.fam, polc, <<r.bcall[1], r.bcall[2]>>, r.bcall[3])
  IN
  << \* a call from the inadmissible classes first: the outcome is the specification's, a throw leaves the object untouched
     <<"bad-outcome", r.bres = bo>>,
     <<"bad-unchanged", bo = "throw" => r.bunch>>,
     <<"outcome", r.out = "ok">>,                                        \* lat in [-89.9, 89.9], k > 0: always admissible
     <<"scale", Le(r.ksr, TolK)>>,                                       \* the scale at lat is k
     <<"origin", r.lat0b>>,                                              \* the latitude of origin is unchanged
     <<"ctor2", r.bout = "ok">>,
     <<"fwd", Within(r.eqf, 2 * Tol, r, alb)>>,                          \* = the projection constructed with the implied scale
     <<"rev", Within(r.eqr, 2 * Tol, r, alb)>>,
     <<"k", Le(r.eqk, 2 * TolK)>> >>

SgClauses(r) == << <<"same", r.same>>, <<"insp", r.insp>>, <<"ovl", r.ovl>> >>

Clauses(r) ==
  CASE r.e = "ctor" -> CtorClauses(r) [] r.e = "sets" -> SetsClauses(r) [] r.e = "sym" -> SymClauses(r)
    [] r.e = "anc" -> AncClauses(r) [] r.e = "eqv" -> EqvClauses(r)
    [] r.e = "pt" -> PtClauses(r) [] r.e = "ob" -> ObClauses(r) [] r.e = "lim" -> LimClauses(r)
    [] r.e = "ss" -> SsClauses(r) [] r.e = "sg" -> SgClauses(r) [] r.e = "seq" -> SeqClauses(r)
    [] OTHER -> << <<"unknown-record", FALSE>> >>

RECURSIVE FirstFail(_, _)
FirstFail(S, i) == IF i > Len(S) THEN "" ELSE IF ~S[i][2] THEN S[i][1] ELSE FirstFail(S, i + 1)

Expected(r) ==
  CASE r.e = "ctor" -> <<CtorOutcome(CtorRec(r))>>
    [] r.e = "sets" -> <<SetScaleOutcome(r.fam, r.pol, r.lat, r.kc)>>
    [] r.e = "sym" -> Rep(r.g, r.fam, r.s)
    [] r.e = "anc" -> <<Canon(AncDesc(r))>>
    [] r.e = "seq" -> [i \in 1..Len(r.calls) |-> SetScaleOutcome(r.fam, r.pol, <<r.calls[i][1], r.calls[i][2]>>, r.calls[i][3])]
    [] OTHER -> <<>>

Init == l = 1 /\ KitInit
Next == /\ l <= NT
        /\ LET r == T[l]  f == FirstFail(Clauses(r), 1)
           IN Require(f = "", l, "conic-" \o r.e \o "-" \o f, Expected(r))
        /\ Consumed(l)
        /\ l' = l + 1
=============================================================================
