------------------------------ MODULE Trace_DMS ------------------------------
(***************************************************************************)
(* Validates observations of the text subsystem (C10) against DMS.tla /     *)
(* NumText.tla / GeoCoordsText.tla.  One record per line:                    *)
(*  lattice replays (exact):  dec ll ang azi enc ench encp val nm fr str pl *)
(*                            lk trim gc                                     *)
(*  seeded law records:       rt (Encode -> Decode), rtn (str -> val),      *)
(*                            dec (generated / mutated / random strings,     *)
(*                            decided exactly), geo (GeoCoords               *)
(*                            representation -> Reset), llr (DecodeLatLon)   *)
(*  crash: an item that killed the process - never accepted.                 *)
(* Tolerances: TolUlp = "a few units of floating-point round-off" beyond     *)
(* half a unit of the last printed digit (property statement; DESIGN C10: 4).*)
(***************************************************************************)
EXTENDS GeoCoordsText, TraceKit

CONSTANTS TolUlp
VARIABLE l

ClsCode(c) == CASE c = "nan" -> 1 [] c = "inf" -> 2 [] c = "-inf" -> 3 [] OTHER -> 0
Min2(a, b) == IF a < b THEN a ELSE b
Max2(a, b) == IF a > b THEN a ELSE b
B2I(b) == IF b THEN 1 ELSE 0

\* smallest power of two above m (m < 2^20)
RECURSIVE P2(_, _)
P2(m, p) == IF p > m THEN p ELSE P2(m, 2 * p)
\* residual tolerance in units of 2^-60 degree for a sum whose largest term has integer part m: TolUlp ulps
ResOK(res, m) == m >= 1000000 \/ res <= TolUlp * 128 * P2(m, 1)

\* a double of magnitude m (whole degrees) resolves units of 1/U degree only below 2^20 degrees; above, TolUlp ulps
\* are this many units (ulp = P2 / 2^53 degrees = P2 / 2.5e7 units)
Fine(m) == m < 1048576
Slack(m) == (TolUlp * P2(m, 1)) \div 25000000 + 1
\* slack, in units, for a value that is not exactly representable: one unit per rounding of a piece (2 np + 1) and, where the
\* double no longer resolves a unit (2^20 degrees and more), the TolUlp ulps of the magnitude as well
PieceSlack(np, m) == 2 * np + 1 + (IF Fine(m) THEN 0 ELSE Slack(m))

\* |q - <<D, R>>| <= slack units
NearQ(q, D, R, slack) ==
  LET dD == q[1] - D IN
  IF dD > 1 \/ dD < -1 THEN FALSE
  ELSE LET e == dD * U + (q[2] - R) IN e <= slack /\ -e <= slack

(* observed (class c, sign bit n, quantised magnitude q, residual res) against an expected Decode result x   *)
ValMatch(x, c, n, q, res, np) ==
  IF x[1] = "sp" THEN c = ClsCode(x[2])
  ELSE /\ c = 0
       /\ \/ x[6]                                                             \* more degrees digits than modelled
          \/ x[5] /\ Fine(Max2(x[10], x[3])) /\ q = <<x[3], x[4]>> /\ (x[8] \/ n = x[2]) /\ ResOK(res, Max2(x[10], x[3]))
          \/ x[5] /\ ~Fine(Max2(x[10], x[3])) /\ NearQ(q, x[3], x[4], Slack(Max2(x[10], x[3]))) /\ (n = x[2] \/ x[3] = 0)
          \/ ~x[5] /\ NearQ(q, x[3], x[4], PieceSlack(np, Max2(x[10], x[3]))) /\ (n = x[2] \/ (x[3] = 0 /\ x[4] <= 2 * np + 1))

DecOK(r) ==
  LET x == Decode(r.s) IN
  CASE x[1] = "throw" -> r.out = "throw"
    [] x[1] = "sp" -> r.out = "ok" /\ r.vc = ClsCode(x[2]) /\ r.ind = x[3]
    [] x[1] = "fin" -> \/ r.out = "ok" /\ r.ind = x[7] /\ ValMatch(x, r.vc, r.vn, r.vq, r.vr, NPieces(r.s))
                       \/ x[9] /\ r.out = "throw"                              \* rule MixedSeparators

LLOK(r) ==
  LET x == DecodeLatLon(r.a, r.b, r.w)
      good == /\ r.out = "ok"
              /\ ValMatch(x[2], r.latc, r.latn, r.latq, r.latr, NPieces(r.a) + NPieces(r.b))
              /\ ValMatch(x[3], r.lonc, r.lonn, r.lonq, r.lonr, NPieces(r.a) + NPieces(r.b))
      bad == r.out = "throw" /\ r.untouched                                    \* lat and lon are unchanged
      mixed == x[1] # "throw" /\ ((x[2][1] = "fin" /\ x[2][9]) \/ (x[3][1] = "fin" /\ x[3][9]))
  IN CASE x[1] = "throw" -> bad [] x[1] = "ok" -> good \/ (mixed /\ bad) [] x[1] = "edge" -> good \/ bad

AngOK(r) ==
  LET x == DecodeAngle(r.s) IN
  IF x[1] = "throw" THEN r.out = "throw"
  ELSE (r.out = "ok" /\ ValMatch(x, r.vc, r.vn, r.vq, r.vr, NPieces(r.s))) \/ (x[1] = "fin" /\ x[9] /\ r.out = "throw")

AziOK(r) ==
  LET x == DecodeAzimuth(r.s)  np == NPieces(r.s)  d0 == Decode(r.s) IN
  CASE x[1] = "throw" -> r.out = "throw"
    [] x[1] = "sp" -> r.out = "ok" /\ (IF x[2] = "nan" THEN r.vc = 1 ELSE r.vc # 0)      \* rule AzInf
    [] x[1] = "az" ->
         \/ d0[9] /\ r.out = "throw"
         \/ /\ r.out = "ok" /\ r.vc = 0
            /\ \/ d0[6]
               \/ x[5] /\ Fine(Max2(d0[10], d0[3])) /\ r.vq = <<x[3], x[4]>> /\ (x[6] \/ (x[3] = 0 /\ x[4] = 0) \/ r.vn = x[2]) /\ ResOK(r.vr, Max2(d0[10], d0[3]))
               \/ x[5] /\ ~Fine(Max2(d0[10], d0[3])) /\ NearQ(r.vq, x[3], x[4], Slack(Max2(d0[10], d0[3])))
               \/ ~x[5] /\ NearQ(r.vq, x[3], x[4], PieceSlack(np, Max2(d0[10], d0[3])))
                        /\ (r.vn = x[2] \/ (x[3] = 0 /\ x[4] <= 2 * np + 1) \/ x[3] = 180 \/ (x[3] = 179 /\ x[4] >= U - 2 * np - 1))

(* ------------------------------ encoder ---------------------------------- *)
IndBack(ind) == IF ind \in {LATITUDE, LONGITUDE} THEN ind ELSE NONE
EncOK(r) ==
  LET e == EncodedValue(r.neg, r.D, r.n, r.t, r.prec, r.ind, r.d) IN
  /\ r.out = "ok"
  /\ r.code = Encode(r.neg, r.D, r.n, r.t, r.prec, r.ind, r.sep, r.d)
  \* closure on the real code: accepted by the parser, same value within round-off, same sign and hemisphere
  /\ r.dout = "ok" /\ r.dcls = 0 /\ r.dind = e[4]
  /\ r.back >= 0 /\ r.back <= TolUlp + 1
  /\ r.dneg = (IF r.ind = AZIMUTH THEN FALSE ELSE r.neg)

EnchOK(r) ==
  LET P == PerDeg(r.t, r.prec)
      up == IF r.n + 1 = P THEN <<r.D + 1, 0>> ELSE <<r.D, r.n + 1>>
  IN /\ r.out = "ok"
     \* (for azimuths the reduction precedes the rounding: a value just below 360 may print as 360, see AzBelow)
     /\ r.code \in {Encode(r.neg, r.D, r.n, r.t, r.prec, r.ind, r.sep, 1), Encode(r.neg, up[1], up[2], r.t, r.prec, r.ind, r.sep, -1)}
     /\ r.dout = "ok" /\ r.dcls = 0 /\ r.dind = IndBack(r.ind)
     /\ r.ex >= 0 /\ r.ex <= TolUlp
     /\ r.dneg = (IF r.ind = AZIMUTH THEN FALSE ELSE r.neg)

\* rule EncodePrecClamp: at most 15 - 2 trailing digits are printed (full precision of a double for angles up to 90)
ClampPrec(t, prec) == Min2(prec, 15 - 2 * t)
ShapeOK(code, t, prec, ind, neg, sep) ==
  LET sh == Shape(code) IN
  /\ sh.ok /\ sh.last = t /\ sh.nfrac \in {prec, ClampPrec(t, prec)}
  /\ (sh.nfrac = 0) = ~sh.haspt
  \* normalised: minutes and seconds below 60
  /\ sh.min < 60 /\ sh.sec < 60
  /\ (t >= MINUTE => sh.minw = 2) /\ (t = SECOND => sh.secw = 2)
  /\ sh.degw >= (CASE ind = NONE -> 1 [] ind = LATITUDE -> 2 [] OTHER -> 3)
  /\ (ind = NONE => sh.degw = 1 \/ code[IF sh.signed THEN 2 ELSE 1] # 48)      \* no leading zeros except in the units place
  \* azimuths in [0, 360]; 360 only by rounding up, i.e. followed by zeros
  /\ (ind = AZIMUTH => sh.deg <= 360 /\ ~sh.signed /\ sh.hemi = 0 /\ (sh.deg = 360 => sh.min <= 0 /\ sh.sec <= 0 /\ sh.fraczero))
  /\ (ind \in {LATITUDE, LONGITUDE} => ~sh.signed /\ HemiInd(sh.hemi) = ind /\ HemiNeg(sh.hemi) = neg)
  /\ (ind = NONE => sh.hemi = 0 /\ sh.signed = neg)
  \* the separator replaces the d ' " indicators
  /\ (sep # 0 => \A i \in 1..Len(code) : code[i] \notin {100, 39, 34})
  /\ (sep = 0 => \A i \in 1..Len(code) : code[i] # 58)

EncpOK(r) ==
  /\ r.out = "ok" /\ ShapeOK(r.code, r.t, r.prec, r.ind, FALSE, 0)
  /\ r.dout = "ok" /\ r.dcls = 0 /\ r.ex >= 0 /\ r.ex <= TolUlp

RtOK(r) ==
  IF r.xcls # 0 THEN
    /\ r.out = "ok" /\ r.code = StrSpecial(CASE r.xcls = 1 -> "nan" [] r.xcls = 2 -> "inf" [] OTHER -> "-inf")
    /\ r.dout = "ok" /\ r.dcls = r.xcls /\ r.dind = NONE
  ELSE
    /\ r.out = "ok" /\ r.dout = "ok" /\ r.dcls = 0
    /\ r.ex >= 0 /\ r.ex <= TolUlp                              \* half a unit of the last digit + round-off
    /\ r.dind = IndBack(r.ind)
    /\ r.dneg = (IF r.ind = AZIMUTH THEN FALSE ELSE r.xneg)     \* same sign (also of zero)
    /\ IF r.ind = NUMBER THEN LET x == Val(r.code) IN x[1] = "num" /\ x[2] = r.xneg
       ELSE ShapeOK(r.code, r.t, r.prec, r.ind, r.xneg, r.sep)

(* ------------------------------ numbers ----------------------------------- *)
ValOK(r) ==
  LET x == Val(r.s) IN
  CASE x[1] = "throw" -> r.out = "throw"
    [] x[1] = "sp" -> r.out = "ok" /\ r.cls = ClsCode(x[2])
    [] x[1] = "num" -> /\ r.out = "ok" /\ r.cls = 0
                       /\ x[5] => /\ r.echo = <<1, B2I(x[2]), x[3], x[4]>>
                                  /\ r.neg = x[2] /\ (x[3] = 0 => r.zero)
                                  /\ (x[4] <= 40 /\ x[4] >= -40) => (r.res >= 0 /\ r.res <= 8)    \* correctly rounded: 1 ulp
NmOK(r) == r.out = "ok" /\ r.cls = ClsCode(Special(r.s))
FrOK(r) ==
  LET x == Fract(r.s) IN
  CASE x[1] = "throw" -> r.out = "throw"
    [] x[1] = "sp" -> r.out = "ok" /\ r.cls = ClsCode(x[2])
    [] x[1] = "num" -> r.out = "ok" /\ r.cls = 0 /\ (x[5] => r.neg = x[2] /\ r.res >= 0 /\ r.res <= 8)
    [] x[1] = "div" -> /\ r.out = "ok"
                       /\ (x[2][1] = "num" /\ x[3][1] = "num" /\ x[2][5] /\ x[3][5] /\ x[3][3] # 0) =>
                            r.cls = 0 /\ r.res >= 0 /\ r.res <= 12
StrOK(r) ==
  /\ r.out = "ok" /\ r.code = StrFixed(r.neg, r.I, r.F, r.p)
  /\ r.vout = "ok" /\ r.back >= 0 /\ r.back <= TolUlp /\ r.vneg = r.neg
RtnOK(r) ==
  IF r.xcls # 0 THEN
    /\ r.out = "ok" /\ r.code = StrSpecial(CASE r.xcls = 1 -> "nan" [] r.xcls = 2 -> "inf" [] OTHER -> "-inf")
    /\ r.vout = "ok" /\ r.ycls = r.xcls
  ELSE
    /\ r.out = "ok" /\ r.vout = "ok" /\ r.ycls = 0 /\ r.ex >= 0 /\ r.ex <= TolUlp /\ r.yneg = r.xneg
    /\ LET x == Val(r.code) IN x[1] = "num" /\ x[2] = r.xneg
    /\ r.p >= 0 => LET pt == FirstPos(r.code, LAMBDA c : c = 46) IN
                   IF r.p = 0 THEN pt = 0 ELSE pt > 0 /\ Len(r.code) - pt = r.p        \* p digits after the point
PlOK(r) == r.out = "ok" /\ ParseLine(r.s, r.eq, r.cm) = <<r.found, r.key, r.val>>
LkOK(r) == r.out = "ok" /\ r.a = Lookup(r.t, r.c) /\ r.b = r.a
TrimOK(r) == r.out = "ok" /\ r.o = Trim(r.s)

(* the other val<T>; the numeric overloads of DMS *)
VbOK(r) == LET x == ValBool(r.s) IN
           CASE x[1] = "bool" -> r.out = "ok" /\ r.val = x[2] [] x[1] = "throw" -> r.out = "throw" [] OTHER -> r.out \in {"ok", "throw"}
ViOK(r) == LET x == ValInt(r.s) IN
           CASE x[1] = "int" -> r.out = "ok" /\ r.mag = x[3] /\ (x[3] # 0 => r.neg = x[2]) [] x[1] = "throw" -> r.out = "throw" [] OTHER -> r.out \in {"ok", "throw"}
VsOK(r) == r.out = "ok" /\ r.o = ValStr(r.s)
DnExpected(r) == IF r.D <= 4 THEN DecodeNum(r.dneg, r.D, r.mneg, r.M, r.sneg, r.S) ELSE DecodeNumSame(r.dneg, r.D, r.M, r.S)
DnOK(r) ==
  LET x == DnExpected(r) IN
  /\ r.out = "ok" /\ r.vc = 0 /\ r.vq = <<x[2], x[3]>> /\ ((x[2] = 0 /\ x[3] = 0) \/ r.vn = x[1]) /\ ResOK(r.vr, x[2])
  \* the overloads with fewer arguments are the same function with the trailing components zero
  /\ (r.nargs < 3 => r.S = 0) /\ (r.nargs < 2 => r.M = 0)
SpOK(r) ==
  LET a == DecodeNumSame(r.neg, r.D, r.M, r.S) IN
  /\ r.out = "ok" /\ r.fin /\ r.dint /\ r.mint
  /\ SplitOK(a[1], a[2], a[3], r.d, r.m, r.rest, r.dn, r.mn, r.sn, 1)

(* ------------------------------ GeoCoords --------------------------------- *)
GcOK0(r) ==
  LET x == Reset(r.s, r.c, r.w) IN
  CASE x[1] = "throw" -> r.out = "throw"
    [] x[1] = "any" -> r.out \in {"ok", "throw"}
    [] x[1] = "geo" -> \/ /\ r.out = "ok" /\ r.altsame
                          /\ ValMatch(x[2], r.latc, r.latn, r.latq, r.latr, x[4])
                          /\ LonMatch(x[3], r.lonc, r.lonn, r.lonq, x[4], TolUlp)
                       \/ x[5] /\ r.out = "throw"
    [] x[1] = "utm" -> /\ r.out = "ok" /\ r.altsame /\ r.zone = x[2] /\ r.x = x[4]
                       /\ \/ r.northp = x[3] /\ r.y = x[5]                                          \* as given
                          \/ ~x[6] /\ r.northp = ~x[3] /\ r.y[2] = x[5][2]                         \* rule HemisphereCanonical
                                   /\ r.y[1] = x[5][1] + (IF x[3] THEN 10000000 ELSE -10000000)
    [] x[1] = "mgrs" -> r.out = "ok" /\ r.altsame /\ r.zone = x[2] /\ r.northp = x[3] /\ r.x = x[4] /\ r.y = x[5]
    [] x[1] = "nanpos" -> r.out = "ok" /\ r.isnan

GcOK(r) == ViaOK(r.via, r.c, r.w) /\ GcOK0(r)

NearEquator(r) == r.latm <= 1000 /\ r.latm >= -1000          \* within 0.001 degree: rounding may reach the equator
GeoOK(r) ==
  /\ r.r0 = "ok" /\ r.rout = "ok" /\ r.qout = "ok"
  \* "Internally longitudes are reduced to the range [-180, 180]": the longitude held is the one given, modulo 360
  /\ r.plc = 0 /\ (r.plq[1] < 180 \/ r.plq = <<180, 0>>) /\ r.plex >= 0 /\ r.plex <= TolUlp
  /\ CASE r.kind \in {0, 1} -> r.exlat >= 0 /\ r.exlat <= TolUlp /\ r.exlon >= 0 /\ r.exlon <= TolUlp
       [] r.kind \in {2, 4} -> /\ r.qzone = r.zone /\ (r.qnorthp = r.northp \/ NearEquator(r))
                               /\ r.exx >= 0 /\ r.exx <= TolUlp /\ r.exy >= 0 /\ r.exy <= TolUlp
       [] r.kind = 3 -> /\ r.qzone = r.zone /\ (r.qnorthp = r.northp \/ NearEquator(r))
                        /\ r.pm >= 0 => IF r.c THEN r.exx >= 0 /\ r.exx <= TolUlp /\ r.exy >= 0 /\ r.exy <= TolUlp
                                        ELSE r.lox >= 0 /\ r.lox <= 1000 /\ r.loy >= 0 /\ r.loy <= 1000
UsOK(r) ==
  /\ r.out = "ok" /\ r.code \in UTMUPSStrQ(r.zone, r.northp, r.abbrev, r.E4, r.N4, r.prec)
  \* the parser accepts it: same zone, hemisphere (the equator belongs to both), position within half a unit
  /\ r.qout = "ok" /\ r.qzone = r.zone /\ (r.qnorthp = r.northp \/ r.N4 <= 2 \/ r.onequator)
  /\ r.exx >= 0 /\ r.exx <= TolUlp /\ r.exy >= 0 /\ r.exy <= TolUlp
  \* without SetAltZone the alternate zone is the zone itself: AltUTMUPSRepresentation gives the same string
  /\ r.acode = r.code
\* hemisphere override on the lattice: the string is the documented one and reads back as the same point
UsoOK(r) ==
  /\ r.out = "ok" /\ r.code \in UTMUPSStrOverride(r.zone, r.northp, r.np2, r.abbrev, r.E4, r.N4, r.prec)
  /\ r.qout = "ok" /\ r.qzone = r.zone
  /\ r.exx >= 0 /\ r.exx <= TolUlp /\ r.exy >= 0 /\ r.exy <= TolUlp
\* alternate zone (SetAltZone) and hemisphere override off the lattice: the string reads back in the zone it names, as the
\* same position within half a unit (MGRS: half a cell); req: the zone asked for (-1 STANDARD, -2 MATCH: the zone itself
\* here, because the point lies in a standard zone)
AltOK(r) ==
  /\ r.r0 = "ok" /\ r.rout = "ok" /\ r.qout = "ok"
  /\ r.altzone = (IF r.req >= 1 THEN r.req ELSE r.zone)
  /\ r.qzone = (IF r.kind = 3 THEN r.zone ELSE r.altzone)
  /\ (r.kind \in {0, 2} => r.qnorthp = r.northp \/ NearEquator(r))
  /\ (r.kind # 2 \/ r.pm >= 0) => r.exx >= 0 /\ r.exx <= TolUlp /\ r.exy >= 0 /\ r.exy <= TolUlp
\* the undefined position: documented spelling, accepted by Reset, undefined again
GnOK(r) == r.rout = "ok" /\ r.code = InvRep(r.rep) /\ r.qout = "ok" /\ r.qnan /\ r.qzone = UT!INVALID
LlrOK(r) == r.out = "ok" /\ r.exlat >= 0 /\ r.exlat <= TolUlp /\ r.exlon >= 0 /\ r.exlon <= TolUlp

Obligation(r) ==
  CASE r.e = "dec" -> DecOK(r) [] r.e = "ll" -> LLOK(r) [] r.e = "ang" -> AngOK(r) [] r.e = "azi" -> AziOK(r)
    [] r.e = "enc" -> EncOK(r) [] r.e = "ench" -> EnchOK(r) [] r.e = "encp" -> EncpOK(r) [] r.e = "rt" -> RtOK(r)
    [] r.e = "val" -> ValOK(r) [] r.e = "nm" -> NmOK(r) [] r.e = "fr" -> FrOK(r) [] r.e = "str" -> StrOK(r)
    [] r.e = "rtn" -> RtnOK(r) [] r.e = "pl" -> PlOK(r) [] r.e = "lk" -> LkOK(r) [] r.e = "trim" -> TrimOK(r)
    [] r.e = "gc" -> GcOK(r) [] r.e = "geo" -> GeoOK(r) [] r.e = "llr" -> LlrOK(r) [] r.e = "us" -> UsOK(r)
    [] r.e = "vb" -> VbOK(r) [] r.e = "vi" -> ViOK(r) [] r.e = "vs" -> VsOK(r) [] r.e = "dn" -> DnOK(r) [] r.e = "sp" -> SpOK(r)
    [] r.e = "uso" -> UsoOK(r) [] r.e = "alt" -> AltOK(r) [] r.e = "gn" -> GnOK(r)
    [] OTHER -> FALSE                    \* crash records and unknown kinds are never accepted

Expected(r) ==
  CASE r.e = "dec" -> Decode(r.s)
    [] r.e = "ll" -> DecodeLatLon(r.a, r.b, r.w)
    [] r.e = "ang" -> DecodeAngle(r.s)
    [] r.e = "azi" -> DecodeAzimuth(r.s)
    [] r.e = "enc" -> Encode(r.neg, r.D, r.n, r.t, r.prec, r.ind, r.sep, r.d)
    [] r.e = "val" -> Val(r.s)
    [] r.e = "str" -> StrFixed(r.neg, r.I, r.F, r.p)
    [] r.e = "gc" -> Reset(r.s, r.c, r.w)
    [] r.e = "us" -> UTMUPSStrQ(r.zone, r.northp, r.abbrev, r.E4, r.N4, r.prec)
    [] r.e = "uso" -> UTMUPSStrOverride(r.zone, r.northp, r.np2, r.abbrev, r.E4, r.N4, r.prec)
    [] r.e = "vb" -> ValBool(r.s) [] r.e = "vi" -> ValInt(r.s) [] r.e = "vs" -> ValStr(r.s)
    [] r.e = "dn" -> DnExpected(r)
    [] r.e = "gn" -> InvRep(r.rep)
    [] OTHER -> <<>>

Law(r) == IF r.e = "crash" THEN "no-crash" ELSE "text-" \o r.e

Init == l = 1 /\ KitInit
Next == /\ l <= NT
        /\ Require(Obligation(T[l]), l, Law(T[l]), Expected(T[l]))
        /\ Consumed(l)
        /\ l' = l + 1
=============================================================================
