---------------------------- MODULE MC_SphereLattice ----------------------------
(* Enumeration of the geodesic lattice (C01-C03): root -> chunk -> vectors.      *)
(* Parts: "dir" direct problems, "inv" inverse problems (incl. pole ends and the  *)
(* pairs lat2 = +-lat1), "ell" the walk over the ellipsoids of the exact solver.  *)
EXTENDS SphereLattice, Sequences, TLC, Json

CONSTANTS Part, Step, NChunks      \* Step: spacing of arcs on the equator / meridians (15 quick, 1 thorough)
VARIABLE v

InChunk(S, C) == {x \in S : x % NChunks = C}
Nodes == {0, 15, -165, 180, 350}
Sig1Flat == {-170, -91, -60, -1, 0, 30, 89, 120, 181, 269, 300}       \* equator / meridian starts (never a pole)
Sig1Mer == {s \in Sig1Flat : ~AtPole(90, s)}
Arcs == {a \in -720..720 : a % Step = 0} \cup {-721, -361, -359, -181, -179, -91, -89, -1, 1, 89, 91, 179, 181, 359, 361, 721}

\* every vector is replayed on one sphere radius and, besides GenDirect by arc and by distance, on one of the six line
\* interfaces (2 Line + position by arc, 3 by distance, 4 DirectLine, 5 ArcDirectLine, 6 GenDirectLine, 7 Line + SetDistance /
\* SetArc); the assignment is a fixed mixing function of the vector, so that every interface meets every kind of arc
Mix(inc, node, s, a) == ((a + 721) * 7 + (s + 170) * 5 + (node + 165) + inc) % 12
RkOf(h) == 1 + (h % 2)
LiOf(h) == 2 + ((h \div 2) % 6)
Dir(inc, node, s, a) == LET h == Mix(inc, node, s, a) IN <<"dir", inc, node, s, a, RkOf(h), LiOf(h)>>

VecDir(C) ==
  \/ \E a \in InChunk(Arcs, C), inc \in {0, 180}, node \in Nodes, s \in Sig1Flat : v' = Dir(inc, node, s, a)
  \/ \E a \in InChunk(Arcs, C), node \in Nodes, s \in Sig1Mer : v' = Dir(90, node, s, a)
  \/ \E k \in InChunk(-8..8, C), inc \in Obliques, node \in {0, 15, -165}, s \in {0, 90, 180, 270} : v' = Dir(inc, node, s, 90 * k)

VecInv(C) ==
  \/ \E s1 \in InChunk(-180..180, C), inc \in {0, 180}, node \in {0, 350}, d \in {a \in -180..180 : a % Step = 0 \/ a \in {-179, -1, 1, 179}} :
        (s1 % 5 = 0) /\ v' = <<"inv", inc, node, s1, s1 + d, 1 + ((s1 + d + node) % 2)>>
  \/ \E s1 \in InChunk({s \in -89..269 : s % 5 = 0 \/ s \in {-89, 89, 91, 269}}, C), node \in {0, 15, 180},
        d \in {a \in -180..180 : a % Step = 0 \/ a \in {-179, -1, 1, 179}} :
        ~AtPole(90, s1) /\ ~AtPole(90, s1 + d) /\ v' = <<"inv", 90, node, s1, s1 + d, 1 + ((s1 + d + node) % 2)>>
  \/ \E k \in InChunk(-2..2, C), inc \in Obliques, node \in {0, 15, -165}, s \in {0, 90, 180, 270}, rk \in Radii : v' = <<"inv", inc, node, s, s + 90 * k, rk>>
  \/ \E lat \in InChunk(-89..89, C), pole \in {"N", "S"}, L \in {0, 77, -120, 180}, lon \in {0, 33, 180, -90, 257}, first \in {TRUE, FALSE} :
        (lat % 5 = 0 \/ lat \in {-89, -1, 1, 89}) /\ v' = <<"pinv", pole, L, lat, lon, first, 1 + ((lat + L + lon) % 2)>>
  \/ \E lon1 \in InChunk({0, 15, -165, 100, 350, -275}, C), lat \in {45, -45}, mirror \in BOOLEAN, dl \in {90, -90}, rk \in Radii :
        v' = <<"sp", lat, lon1, mirror, dl, rk>>

(* The ellipsoids of the exact solver: third flattening n = j/200, j in -196..196, i.e. b/a = (200 - j)/(200 + j) in        *)
(* [0.0101, 99] (GeodesicExact.hpp: b/a in [0.01, 100]); on each a direct problem with integer start latitude, azimuth and   *)
(* arc length, given as an arc (mode 0) or as the corresponding distance (mode 1).  Quick: one problem per ellipsoid.         *)
EllJ == -196..196
EllLat == <<10, -35, 60, 0, 80, -72>>
EllAzi == <<20, 50, 95, 140, -110, -3>>
EllArc == <<30, 75, 130, 170, -60>>
VecEll(C) ==
  \E j \in InChunk({x + 196 : x \in EllJ}, C) :
     LET jj == j - 196 IN
     IF Step = 15
     THEN v' = <<"ell", jj, EllLat[1 + (j % 6)], EllAzi[1 + ((j \div 2) % 6)], EllArc[1 + ((j \div 3) % 5)], j % 2>>
     ELSE \E la \in 1..6, az \in 1..6, ar \in 1..5, mode \in 0..1 : (la + az + ar + j) % 3 = 0 /\ v' = <<"ell", jj, EllLat[la], EllAzi[az], EllArc[ar], mode>>

Init == v = <<"root">>
Next ==
  \/ v = <<"root">> /\ \E c \in 0..(NChunks - 1) : v' = <<"chunk", c>>
  \/ v[1] = "chunk" /\ (CASE Part = "dir" -> VecDir(v[2]) [] Part = "inv" -> VecInv(v[2]) [] Part = "ell" -> VecEll(v[2]))

(* ---------------- model invariants: the lattice is self-consistent ---------------- *)
DirInv ==
  v[1] = "dir" =>
    LET inc == v[2]  s1 == v[4]  a == v[5]  d == Direct(inc, s1, a) IN
    /\ d.ends # {} /\ d.lat2 \in -90..90
    /\ v[6] \in Radii /\ v[7] \in 2..7
    /\ \A e \in d.ends : e[2] \in -179..180
    \* whole circuits return to the start with the same azimuth; lon2 - lon1 counts them (equator, oblique)
    /\ (a % 360 = 0 /\ inc # 90 => d.lat2 = Lat(inc, s1) /\ \A e \in d.ends : e[2] = Azi(inc, s1) /\ Abs(e[1]) = Abs(a))
    \* going there and back
    /\ (inc # 90 => LET b == Direct(inc, s1 + a, -a) IN b.lat2 = Lat(inc, s1) /\ \A e \in d.ends, f \in b.ends : e[1] + f[1] = 0)
    \* the arc a12 splits additively at any lattice point: areas and longitudes add
    /\ (inc \in Obliques /\ a % 180 = 0 /\ a # 0 =>
          LET h == Direct(inc, s1, a \div 2)  g == Direct(inc, s1 + a \div 2, a \div 2) IN
          \A x \in d.S12, y \in h.S12, z \in g.S12 : x = y + z)
    \* consistent with the inverse problem when the arc is a shortest path
    /\ (Abs(a) < 180 /\ a # 0 /\ ~AtPole(inc, s1 + a) =>
          LET i == Inverse(inc, s1, s1 + a) IN i.a12 = Abs(a) /\ i.m2 = Sin2(Abs(a)) /\ i.S12 = d.S12
              /\ (a > 0 => i.azi1 = Azi(inc, s1) /\ \A e \in d.ends : e[2] = i.azi2))
    \* reduced length and scale: m12 = R sin, M12 = cos (Pythagoras where both rational)
    /\ (d.m2 # 99 /\ d.M2 # 99 => d.m2 * d.m2 + d.M2 * d.M2 = 4)

InvInv ==
  /\ v[1] = "inv" =>
       LET i == Inverse(v[2], v[4], v[5])  j == Inverse(v[2], v[5], v[4]) IN
       /\ i.a12 \in 0..180 /\ i.a12 = j.a12 /\ v[6] \in Radii
       \* exchanging the end points: azimuths swapped and reversed, area negated
       /\ (i.unique => j.azi1 = Norm180(i.azi2 + 180) /\ j.azi2 = Norm180(i.azi1 + 180))
       /\ (i.unique => \A x \in i.S12, y \in j.S12 : x + y = 0)
  /\ v[1] = "pinv" =>
       LET p == PoleInverse(v[2], v[3], v[4], v[5], v[6])  q == PoleInverse(v[2], v[3], v[4], v[5], ~v[6]) IN
       /\ p.a12 \in 1..179 /\ p.a12 = q.a12 /\ v[7] \in Radii
       /\ q.azi1 = Norm180(p.azi2 + 180) /\ q.azi2 = Norm180(p.azi1 + 180)
  /\ v[1] = "sp" =>
       \* exchanging the end points (lat2 = -lat1 when mirrored, the opposite sense of longitude): azimuths swapped and reversed,
       \* area negated, arc unchanged; the two azimuths are supplementary on one parallel and equal across the equator
       LET lat2 == IF v[4] THEN -v[2] ELSE v[2]
           i == SameParallel(v[2], v[4], v[5])  j == SameParallel(lat2, v[4], -v[5])
           Rev(z) == <<(z[1] + 180) % 360, z[2]>>
           Same(x, y) == x[1] % 360 = y[1] % 360 /\ x[2] = y[2]
       IN /\ i.a12 = j.a12 /\ i.m2 = j.m2 /\ i.M2 = j.M2
          /\ Same(j.azi1, Rev(i.azi2)) /\ Same(j.azi2, Rev(i.azi1))
          /\ i.S12[1] + j.S12[1] = 0 /\ i.S12[2] + j.S12[2] = 0
          /\ (v[4] => i.azi1 = i.azi2) /\ (~v[4] => (i.azi1[1] + i.azi2[1]) % 360 = 180 /\ i.azi1[2] + i.azi2[2] = 0)
          /\ i.S12 = <<i.azi2[1] - i.azi1[1], i.azi2[2] - i.azi1[2]>>       \* S12 = (alpha2 - alpha1) U
          /\ (i.M2 * i.M2 + 3 = 4)                                           \* cos^2 + sin^2 = 1 with 2 sin = sqrt(3)
EllInv ==
  v[1] = "ell" => /\ 100 * (200 - v[2]) >= 200 + v[2] /\ 200 - v[2] <= 100 * (200 + v[2])     \* b/a in [0.01, 100]
                  /\ v[3] \in -89..89 /\ v[5] # 0 /\ Abs(v[5]) < 180

LonOf(inc, node, sig) == Norm180(node + LonAt(inc, sig))
Emit ==
  /\ (v[1] = "dir" => PrintT(ToJson(v \o <<Lat(v[2], v[4]), LonOf(v[2], v[3], v[4]), Azi(v[2], v[4])>>)))
  /\ (v[1] = "inv" => PrintT(ToJson(v \o <<Lat(v[2], v[4]), LonOf(v[2], v[3], v[4]), Lat(v[2], v[5]), LonOf(v[2], v[3], v[5])>>)))
  /\ (v[1] = "pinv" => LET plat == IF v[2] = "N" THEN 90 ELSE -90 IN
         PrintT(ToJson(v \o (IF v[6] THEN <<plat, v[3], v[4], v[5]>> ELSE <<v[4], v[5], plat, v[3]>>))))
  /\ (v[1] = "sp" => PrintT(ToJson(v \o <<v[2], v[3], IF v[4] THEN -v[2] ELSE v[2], v[3] + v[5]>>)))
  /\ (v[1] = "ell" => PrintT(ToJson(v)))
=============================================================================
