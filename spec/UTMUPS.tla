------------------------------- MODULE UTMUPS -------------------------------
(***************************************************************************)
(* UTM/UPS zone selection, legal coordinate rectangles, zone strings and   *)
(* EPSG codes (property C04), as exact integer functions.  Written from    *)
(* UTMUPS.hpp (zonespec, Forward/Reverse range text, DecodeZone examples)  *)
(* and the NGA zone rules.  Latitudes/longitudes are Eps numbers <<k, d>>  *)
(* in degrees (k integer, d in {-1,0,1} ulps); grid coordinates are Eps    *)
(* numbers in units of 50 km.                                               *)
(***************************************************************************)
EXTENDS Integers, Sequences, FiniteSets

INVALID == -4
MATCH == -3
UTMZ == -2
STANDARD == -1
UPS == 0

\* floor of an Eps number whose lattice value k is exactly representable
EFloor(p) == IF p[2] < 0 THEN p[1] - 1 ELSE p[1]
ELess(p, q) == p[1] < q[1] \/ (p[1] = q[1] /\ p[2] < q[2])
ELeq(p, q) == p[1] < q[1] \/ (p[1] = q[1] /\ p[2] <= q[2])

\* longitude reduced to [-180, 180): integer degree containing it
LonDeg(lon) == ((EFloor(lon) + 180) % 360) - 180

\* latitude band index -10..9 (C..X), 8 degrees each from -80, clipped (X is 12 degrees)
Band(lat) ==
  LET b == ((EFloor(lat) + 80) \div 8) - 10
  IN IF b < -10 THEN -10 ELSE IF b > 9 THEN 9 ELSE b

UTMZone(lat, lon) ==
  LET ilon == LonDeg(lon)
      z == ((ilon + 180) \div 6) + 1
      band == Band(lat)
  IN IF band = 7 /\ z = 31 /\ ilon >= 3 THEN 32                 \* Norway: 32V widened to 3E
     ELSE IF band = 9 /\ ilon >= 0 /\ ilon < 42 THEN             \* Svalbard: 32X, 34X, 36X removed
       (IF ilon < 9 THEN 31 ELSE IF ilon < 21 THEN 33 ELSE IF ilon < 33 THEN 35 ELSE 37)
     ELSE z

\* lat in [-80, 84)
InUTMLat(lat) == ~ELess(lat, <<-80, 0>>) /\ ELess(lat, <<84, 0>>)

StdZone(lat, lon, setzone) ==
  IF setzone < -4 \/ setzone > 60 THEN <<"throw">>
  ELSE IF setzone >= 0 \/ setzone = INVALID THEN <<"ok", setzone>>
  ELSE IF setzone = UTMZ \/ InUTMLat(lat) THEN <<"ok", UTMZone(lat, lon)>>
  ELSE <<"ok", UPS>>

CentralMeridian(zone) == 6 * zone - 183
\* central scale factor in units of 1e-9: "the central scale factor for UTM (0.9996)" / "for UPS (0.994)"
\* (Constants.hpp), which TransverseMercator::UTM() / PolarStereographic::UPS() are documented to carry.
\* It is the scale ON the central meridian of a transverse Mercator projection (every latitude) and AT the
\* pole of a polar stereographic one.
K0e9(utmp) == IF utmp THEN 999600000 ELSE 994000000
\* metres: "shift necessary to align north and south halves of a UTM zone (10^7)" (UTMShift)
UTMShiftKm == 10000
LatBad(lat) == lat[1] > 90 \/ (lat[1] = 90 /\ lat[2] > 0) \/ lat[1] < -90 \/ (lat[1] = -90 /\ lat[2] < 0)
Northp(lat) == lat[1] > 0 \/ (lat[1] = 0 /\ lat[2] >= 0)      \* +0 counts as north

(* ------------------------------------------------------------------------ *)
(* Legal rectangles, in km, closed at both ends (UTMUPS::Reverse text).      *)
(* kind: "utm"/"ups"; mgrs = TRUE shrinks every side by 100 km.              *)
(* ------------------------------------------------------------------------ *)
RectKm(utmp, northp, mgrs) ==
  LET s == IF mgrs THEN 100 ELSE 0 IN
  IF utmp THEN
    IF northp THEN [xmin |-> 0 + s, xmax |-> 1000 - s, ymin |-> -9100 + s, ymax |-> 9600 - s]
    ELSE           [xmin |-> 0 + s, xmax |-> 1000 - s, ymin |-> 900 + s,   ymax |-> 19600 - s]
  ELSE
    IF northp THEN [xmin |-> 1200 + s, xmax |-> 2800 - s, ymin |-> 1200 + s, ymax |-> 2800 - s]
    ELSE           [xmin |-> 700 + s,  xmax |-> 3300 - s, ymin |-> 700 + s,  ymax |-> 3300 - s]

\* x, y Eps numbers in units of 50 km
InRect(utmp, northp, mgrs, x, y) ==
  LET r == RectKm(utmp, northp, mgrs)
      E(km) == <<km \div 50, 0>>
  IN ELeq(E(r.xmin), x) /\ ELeq(x, E(r.xmax)) /\ ELeq(E(r.ymin), y) /\ ELeq(y, E(r.ymax))

\* same test on coordinates given in nanometre limbs <<metres (floor), nanometres>>;
\* returns "in", "out" or "edge" (within tol nm of an edge: either answer admissible)
RectClass(utmp, northp, mgrs, X, Y, tol) ==
  LET r == RectKm(utmp, northp, mgrs)
      \* signed distance (nm, saturated) of coordinate C above bound km
      Above(C, km) == IF C[1] - km * 1000 > 1 THEN 2000000000
                      ELSE IF C[1] - km * 1000 < -2 THEN -2000000000
                      ELSE (C[1] - km * 1000) * 1000000000 + C[2]
      m == {Above(X, r.xmin), -Above(X, r.xmax), Above(Y, r.ymin), -Above(Y, r.ymax)}
  IN IF \A v \in m : v >= tol THEN "in"
     ELSE IF \E v \in m : v < -tol THEN "out"
     ELSE "edge"

FalseEastingKm(utmp) == IF utmp THEN 500 ELSE 2000
FalseNorthingKm(utmp, northp) == IF utmp THEN (IF northp THEN 0 ELSE 10000) ELSE 2000

Reverse(zone, northp, x, y, mgrs) ==
  IF zone = INVALID THEN <<"nan">>
  ELSE IF zone < 0 \/ zone > 60 THEN <<"throw">>
  ELSE IF InRect(zone # UPS, northp, mgrs, x, y) THEN <<"ok">> ELSE <<"throw">>

(* ------------------------------------------------------------------------ *)
(* Transfer(zonein, northpin, xin, yin, zoneout, northpout): the zone of the   *)
(* output.  "zone ... equals zoneout if zoneout >= 0"; "if zoneout < MINZONE   *)
(* then the rules given in the documentation of zonespec are applied":         *)
(* MATCH - the coordinate already includes zone information (zonein), use      *)
(* that; UTM / STANDARD - the rules applied to the point.                      *)
(* Rule TransferEdge: the point is carried through geographic coordinates      *)
(* (about 5 nm each way), so a point given on a degree line that is a zone or  *)
(* UPS edge may come back on either side of it; the admissible set collects    *)
(* the zones of the neighbouring positions (lat, lon are Eps numbers on the    *)
(* integer-degree lattice).                                                    *)
(* ------------------------------------------------------------------------ *)
TransferZones(zin, zout, lat, lon) ==
  IF zout = MATCH THEN {zin}
  ELSE IF zout >= 0 \/ zout = INVALID THEN {zout}
  ELSE {StdZone(<<lat[1], i>>, <<lon[1], j>>, zout)[2] : i \in {-1, 0, 1}, j \in {-1, 0, 1}}

(* ------------------------------------------------------------------------ *)
(* Zone strings (byte-code sequences) and EPSG codes                          *)
(* ------------------------------------------------------------------------ *)
Lower(c) == IF c >= 65 /\ c <= 90 THEN c + 32 ELSE c
LowerS(s) == [i \in 1..Len(s) |-> Lower(s[i])]
IsDigit(c) == c >= 48 /\ c <= 57
W_n == <<110>>   W_s == <<115>>
W_north == <<110, 111, 114, 116, 104>>   W_south == <<115, 111, 117, 116, 104>>
W_inv == <<105, 110, 118>>   W_invalid == <<105, 110, 118, 97, 108, 105, 100>>

\* number of leading digits
RECURSIVE NDig(_, _)
NDig(s, i) == IF i <= Len(s) /\ IsDigit(s[i]) THEN NDig(s, i + 1) ELSE i - 1

DecodeZone(s) ==
  LET n == Len(s)
      nd == NDig(s, 1)
      h == LowerS(SubSeq(s, nd + 1, n))
      z == IF nd = 0 THEN 0 ELSE IF nd = 1 THEN s[1] - 48 ELSE 10 * (s[1] - 48) + (s[2] - 48)
  IN IF n = 0 \/ n > 7 THEN <<"throw">>
     ELSE IF nd = 0 /\ h \in {W_inv, W_invalid} THEN <<"ok", INVALID, FALSE>>
     ELSE IF nd > 2 \/ (nd > 0 /\ (z < 1 \/ z > 60)) THEN <<"throw">>
     ELSE IF h \in {W_n, W_north} THEN <<"ok", z, TRUE>>
     ELSE IF h \in {W_s, W_south} THEN <<"ok", z, FALSE>>
     ELSE <<"throw">>

EncodeZone(zone, northp, abbrev) ==
  IF zone = INVALID THEN <<"ok", IF abbrev THEN W_inv ELSE W_invalid>>
  ELSE IF zone < 0 \/ zone > 60 THEN <<"throw">>
  ELSE LET h == IF abbrev THEN (IF northp THEN W_n ELSE W_s) ELSE (IF northp THEN W_north ELSE W_south)
           d == IF zone = 0 THEN <<>> ELSE <<48 + zone \div 10, 48 + (zone % 10)>>
       IN <<"ok", d \o h>>

DecodeEPSG(e) ==
  IF e >= 32601 /\ e <= 32660 THEN <<e - 32600, TRUE>>
  ELSE IF e = 32661 THEN <<0, TRUE>>
  ELSE IF e >= 32701 /\ e <= 32760 THEN <<e - 32700, FALSE>>
  ELSE IF e = 32761 THEN <<0, FALSE>>
  ELSE <<INVALID, FALSE>>

EncodeEPSG(zone, northp) ==
  IF zone < 0 \/ zone > 60 THEN -1
  ELSE (IF northp THEN 32600 ELSE 32700) + (IF zone = 0 THEN 61 ELSE zone)
=============================================================================
