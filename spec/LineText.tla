------------------------------- MODULE LineText -------------------------------
(***************************************************************************)
(* What the command-line tools built on the parsers owe for one input line  *)
(* (property C10), from the man pages of GeoConvert and GeodSolve: an        *)
(* illegal line gives an output line beginning with ERROR: ; a legal line    *)
(* gives the converted position, which - where input and output are both     *)
(* text of the same kind - must be the input to within half a unit of the    *)
(* last printed digit (all arithmetic exact, in 1e-5 arc second units and    *)
(* nanometres).  Constant level; the protocol state machine is LineTool.     *)
(***************************************************************************)
EXTENDS GeoCoordsText

ErrPrefix == <<69, 82, 82, 79, 82, 58>>                       \* ERROR:
IsError(out) == Len(out) >= 6 /\ SubSeq(out, 1, 6) = ErrPrefix

\* tokens separated by white space only (operator>> of a C++ stream)
RECURSIVE WTok(_, _, _, _)
WTok(s, i, st, acc) ==
  IF i > Len(s) THEN (IF st = 0 THEN acc ELSE Append(acc, SubSeq(s, st, Len(s))))
  ELSE IF IsSpace(s[i]) THEN WTok(s, i + 1, 0, IF st = 0 THEN acc ELSE Append(acc, SubSeq(s, st, i - 1)))
  ELSE WTok(s, i + 1, IF st = 0 THEN i ELSE st, acc)
WTokens(s) == WTok(s, 1, 0, <<>>)

(* ------------------------------ GeoConvert ------------------------------- *)
\* cfg: [tool, mode ("g" "d" ":" "u" "m"), prec, w (longitude first), c (MGRS centre)]
\* class of an input line: "bad" (must give ERROR), "good" (must not), "any"
GCLine(cfg, s) ==
  LET r == Reset(s, cfg.c, cfg.w) IN
  CASE r[1] = "throw" -> "bad"
    [] r[1] \in {"any", "nanpos"} -> "any"
    [] r[1] = "geo" -> IF r[5] THEN "any" ELSE "good"                    \* mixed separators
    [] r[1] \in {"utm", "mgrs"} -> IF cfg.mode = "m" THEN "any" ELSE "good"   \* MGRS has narrower limits (C05)

Min2L(a, b) == IF a < b THEN a ELSE b
Max2L(a, b) == IF a > b THEN a ELSE b
\* trailing component and digits of Encode(angle, prec, ...) with prec relative to one degree
TrailOf(pe) == IF pe < 2 THEN DEGREE ELSE IF pe < 4 THEN MINUTE ELSE SECOND
PrecOf(pe) == IF pe < 2 THEN pe ELSE IF pe < 4 THEN pe - 2 ELSE pe - 4
\* half a unit of the last digit in U-ths of a degree; 0 when it is not a whole number of them
HalfUnit(t, p) == LET P == PerDeg(t, p) IN IF P <= U \div 2 /\ U % (2 * P) = 0 THEN U \div (2 * P) ELSE 0

\* | a - b | <= h for values <<neg, D, R>> (exact)
AbsDiffLE(an, aD, aR, bn, bD, bR, h) ==
  IF an = bn \/ (aD = 0 /\ aR = 0) \/ (bD = 0 /\ bR = 0)
  THEN LET dD == aD - bD IN dD <= 1 /\ dD >= -1 /\ dD * U + (aR - bR) <= h /\ -(dD * U + (aR - bR)) <= h
  ELSE aD = 0 /\ bD = 0 /\ aR + bR <= h
\* the same for longitudes reduced to [-180, 180], modulo 360
LonDiffLE(a, b, h) ==
  \/ AbsDiffLE(a[2], a[3], a[4], b[2], b[3], b[4], h)
  \/ a[2] # b[2] /\ a[3] >= 179 /\ b[3] >= 179 /\ (180 - a[3]) * U - a[4] + (180 - b[3]) * U - b[4] <= h

\* latitude/longitude text against latitude/longitude text at pe digits relative to a degree (dms: as d m s)
LLClose(lat, lon, o1, o2, w, pe, dms) ==
  LET y == DecodeLatLon(o1, o2, w)
      t == IF dms THEN TrailOf(pe) ELSE DEGREE
      p == IF dms THEN PrecOf(pe) ELSE pe
      h == HalfUnit(t, p)
  IN /\ y[1] = "ok" /\ y[2][1] = "fin" /\ y[3][1] = "fin"
     /\ (h > 0 /\ lat[5] /\ ~lat[6] /\ lon[5] /\ ~lon[7] /\ y[2][5] /\ y[3][5]) =>
          /\ AbsDiffLE(y[2][2], y[2][3], y[2][4], lat[2], lat[3], lat[4], h)
          /\ LonDiffLE(Reduce180(y[3]), lon, h)
     /\ dms => IndOf(Decode(o1)) # NONE /\ IndOf(Decode(o2)) # NONE        \* hemisphere designators on DMS output

\* grid coordinates in nanometre limbs: | a - b | <= h nm
NmDiffLE(a, b, h) == LET d == a[1] - b[1] IN d <= 1 /\ d >= -1 /\ d * 1000000000 + (a[2] - b[2]) <= h /\ -(d * 1000000000 + (a[2] - b[2])) <= h
NorthY(northp, Y) == IF northp THEN Y ELSE <<Y[1] - 10000000, Y[2]>>      \* northing counted from the equator
GCContent(cfg, s, out) ==
  LET r == Reset(s, cfg.c, cfg.w)  tk == Tokens(out) IN
  CASE r[1] = "geo" /\ cfg.mode \in {"g", "d", ":"} ->
         /\ Len(tk) = 2
         /\ LLClose(r[2], r[3], tk[1], tk[2], cfg.w, IF cfg.mode = "g" THEN Max2L(0, Min2L(9, cfg.prec) + 5) ELSE Max2L(0, Min2L(10, cfg.prec) + 5), cfg.mode # "g")
         /\ (cfg.mode = ":" => \A i \in 1..Len(out) : out[i] \notin {100, 39, 34})
    [] r[1] \in {"utm", "mgrs"} /\ cfg.mode = "u" /\ cfg.prec >= 0 /\ cfg.prec <= 8 ->
         LET q == Reset(out, TRUE, FALSE) IN
         /\ Len(tk) = 3 /\ q[1] = "utm" /\ q[2] = r[2]
         /\ NmDiffLE(q[4], r[4], 5 * Pow10(8 - cfg.prec))
         /\ (r[2] # 0 => NmDiffLE(NorthY(q[3], q[5]), NorthY(r[3], r[5]), 5 * Pow10(8 - cfg.prec)))
         /\ (r[2] = 0 => q[3] = r[3] /\ NmDiffLE(q[5], r[5], 5 * Pow10(8 - cfg.prec)))
    [] cfg.mode = "u" -> Len(tk) = 3
    [] cfg.mode = "m" -> Len(tk) <= 1
    [] OTHER -> Len(tk) = 2

(* ------------------------------ GeodSolve -------------------------------- *)
\* cfg: [tool, mode ("dir" "inv"), prec, w, dms (0, 100 for d ' ", 58 for :)]
GSLine(cfg, s) ==
  LET tk == WTokens(s) IN
  IF Len(tk) # 4 THEN "bad"                                   \* Incomplete / Extraneous input
  ELSE LET a == DecodeLatLon(tk[1], tk[2], cfg.w)
           b == IF cfg.mode = "inv" THEN DecodeLatLon(tk[3], tk[4], cfg.w) ELSE <<"ok">>
           az == IF cfg.mode = "inv" THEN <<"ok">> ELSE DecodeAzimuth(tk[3])
           ds == IF cfg.mode = "inv" THEN <<"ok">> ELSE Val(tk[4])
           Mixed(x) == x[1] # "throw" /\ Len(x) >= 3 /\ ((x[2][1] = "fin" /\ x[2][9]) \/ (x[3][1] = "fin" /\ x[3][9]))
       IN IF a[1] = "throw" \/ b[1] = "throw" \/ az[1] = "throw" \/ ds[1] = "throw" THEN "bad"
          ELSE IF a[1] = "edge" \/ b[1] = "edge" \/ Mixed(a) \/ Mixed(b) \/ (cfg.mode # "inv" /\ Decode(tk[3])[1] = "fin" /\ Decode(tk[3])[9]) THEN "any"
          ELSE "good"

\* a direct problem of zero length returns its starting point and azimuth
GSContent(cfg, s, out) ==
  LET tk == WTokens(s)  ot == WTokens(out) IN
  IF cfg.mode = "inv" THEN Len(ot) = 3
  ELSE
    /\ Len(ot) = 3
    /\ LET a == DecodeLatLon(tk[1], tk[2], cfg.w)  ds == Val(tk[4])  az == DecodeAzimuth(tk[3])
           pe == Min2L(10, Max2L(0, cfg.prec)) + 5
           dms == cfg.dms # 0
           h == HalfUnit(IF dms THEN TrailOf(pe) ELSE DEGREE, IF dms THEN PrecOf(pe) ELSE pe)
       IN (ds[1] = "num" /\ ds[3] = 0 /\ a[2][1] = "fin" /\ a[3][1] = "fin" /\ a[2][3] < 89 /\ az[1] = "az") =>
            /\ LLClose(a[2], Reduce180(a[3]), ot[1], ot[2], cfg.w, pe, dms)
            /\ LET oz == DecodeAzimuth(ot[3]) IN
               /\ oz[1] = "az"
               /\ (h > 0 /\ az[5] /\ oz[5]) => LonDiffLE(oz, az, h)
=============================================================================
