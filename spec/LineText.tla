------------------------------- MODULE LineText -------------------------------
(***************************************************************************)
(* What the command-line tools built on the parsers owe for one input line  *)
(* (property C10), from the man pages of GeoConvert and GeodSolve: an        *)
(* illegal line gives an output line beginning with ERROR: ; a legal line    *)
(* gives the converted position, which - where input and output are both     *)
(* text of the same kind - must be the input to within half a unit of the    *)
(* last printed digit (all arithmetic exact, in 1e-5 arc second units and    *)
(* nanometres).  Constant level; the protocol state machine is LineTool.     *)
(***************************************************************************)
EXTENDS GeoCoordsText

ErrPrefix == <<69, 82, 82, 79, 82, 58>>                       \* ERROR:
IsError(out) == Len(out) >= 6 /\ SubSeq(out, 1, 6) = ErrPrefix

\* tokens separated by white space only (operator>> of a C++ stream)
RECURSIVE WTok(_, _, _, _)
WTok(s, i, st, acc) ==
  IF i > Len(s) THEN (IF st = 0 THEN acc ELSE Append(acc, SubSeq(s, st, Len(s))))
  ELSE IF IsSpace(s[i]) THEN WTok(s, i + 1, 0, IF st = 0 THEN acc ELSE Append(acc, SubSeq(s, st, i - 1)))
  ELSE WTok(s, i + 1, IF st = 0 THEN i ELSE st, acc)
WTokens(s) == WTok(s, 1, 0, <<>>)

\* --comment-delimiter (all tools): "the delimiter and the rest of the line will be removed prior to processing and
\* subsequently appended to the output line (separated by a space)".  cfg.cd: the delimiter byte, 0 = none
CPos(c, s) == IF c.cd = 0 THEN 0 ELSE FirstPos(s, LAMBDA x : x = c.cd)
Body(c, s) == LET p == CPos(c, s) IN IF p = 0 THEN s ELSE SubSeq(s, 1, p - 1)
Comment(c, s) == LET p == CPos(c, s) IN IF p = 0 THEN <<>> ELSE SubSeq(s, p, Len(s))
\* the output line without the appended comment; <<FALSE>> when the comment is not there
OutBody(c, s, out) ==
  LET cm == Comment(c, s)  n == Len(out)  m == Len(cm) IN
  IF m = 0 THEN <<TRUE, out>>
  ELSE IF n >= m + 1 /\ SubSeq(out, n - m, n) = <<32>> \o cm THEN <<TRUE, SubSeq(out, 1, n - m - 1)>>
  ELSE <<FALSE, <<>> >>
SignedDegL(neg, D) == IF neg THEN -D ELSE D

(* ------------------------------ GeoConvert ------------------------------- *)
\* cfg: [tool, mode ("g" "d" ":" "u" "m"), prec, w (longitude first), c (MGRS centre), cd (comment delimiter),
\*       z (-z zone: the UTM zone of the output, 0 = not given), zn ("n" / "s": -z zone with a hemisphere, "" none)]
\* class of an input line: "bad" (must give ERROR), "good" (must not), "any"
\* -z: "use zone for the output" - possible only for points that the zone's projection covers; the man page does not
\* give the limit, so only points within 4 degrees of the central meridian and below latitude 80 are held to succeed
NearZone(z, lat, lon) ==
  LET cm == 6 * z - 183  d == SignedDegL(lon[2], lon[3]) - cm IN
  ~lon[7] /\ lat[3] < 80 /\ d <= 3 /\ d >= -4
GCLine(cfg, s0) ==
  LET s == Body(cfg, s0)  r == Reset(s, cfg.c, cfg.w) IN
  CASE r[1] = "throw" -> "bad"
    [] r[1] \in {"any", "nanpos"} -> "any"
    [] cfg.z # 0 -> IF r[1] = "geo" /\ ~r[5] /\ ~r[2][6] /\ NearZone(cfg.z, r[2], r[3]) /\ cfg.mode # "m" THEN "good" ELSE "any"
    [] r[1] = "geo" -> IF r[5] THEN "any" ELSE "good"                    \* mixed separators
    [] r[1] \in {"utm", "mgrs"} -> IF cfg.mode = "m" THEN "any" ELSE "good"   \* MGRS has narrower limits (C05)

Min2L(a, b) == IF a < b THEN a ELSE b
Max2L(a, b) == IF a > b THEN a ELSE b
\* trailing component and digits of Encode(angle, prec, ...) with prec relative to one degree
TrailOf(pe) == IF pe < 2 THEN DEGREE ELSE IF pe < 4 THEN MINUTE ELSE SECOND
PrecOf(pe) == IF pe < 2 THEN pe ELSE IF pe < 4 THEN pe - 2 ELSE pe - 4
\* half a unit of the last digit in U-ths of a degree; 0 when it is not a whole number of them
HalfUnit(t, p) == LET P == PerDeg(t, p) IN IF P <= U \div 2 /\ U % (2 * P) = 0 THEN U \div (2 * P) ELSE 0

\* | a - b | <= h for values <<neg, D, R>> (exact)
AbsDiffLE(an, aD, aR, bn, bD, bR, h) ==
  IF an = bn \/ (aD = 0 /\ aR = 0) \/ (bD = 0 /\ bR = 0)
  THEN LET dD == aD - bD IN dD <= 1 /\ dD >= -1 /\ dD * U + (aR - bR) <= h /\ -(dD * U + (aR - bR)) <= h
  ELSE aD = 0 /\ bD = 0 /\ aR + bR <= h
\* the same for longitudes reduced to [-180, 180], modulo 360
LonDiffLE(a, b, h) ==
  \/ AbsDiffLE(a[2], a[3], a[4], b[2], b[3], b[4], h)
  \/ a[2] # b[2] /\ a[3] >= 179 /\ b[3] >= 179 /\ (180 - a[3]) * U - a[4] + (180 - b[3]) * U - b[4] <= h

\* latitude/longitude text against latitude/longitude text at pe digits relative to a degree (dms: as d m s)
LLClose(lat, lon, o1, o2, w, pe, dms) ==
  LET y == DecodeLatLon(o1, o2, w)
      t == IF dms THEN TrailOf(pe) ELSE DEGREE
      p == IF dms THEN PrecOf(pe) ELSE pe
      h == HalfUnit(t, p)
  IN /\ y[1] = "ok" /\ y[2][1] = "fin" /\ y[3][1] = "fin"
     /\ (h > 0 /\ lat[5] /\ ~lat[6] /\ lon[5] /\ ~lon[7] /\ y[2][5] /\ y[3][5]) =>
          /\ AbsDiffLE(y[2][2], y[2][3], y[2][4], lat[2], lat[3], lat[4], h)
          /\ LonDiffLE(Reduce180(y[3]), lon, h)
     /\ dms => IndOf(Decode(o1)) # NONE /\ IndOf(Decode(o2)) # NONE        \* hemisphere designators on DMS output

\* grid coordinates in nanometre limbs: | a - b | <= h nm
NmDiffLE(a, b, h) == LET d == a[1] - b[1] IN d <= 1 /\ d >= -1 /\ d * 1000000000 + (a[2] - b[2]) <= h /\ -(d * 1000000000 + (a[2] - b[2])) <= h
NorthY(northp, Y) == IF northp THEN Y ELSE <<Y[1] - 10000000, Y[2]>>      \* northing counted from the equator
\* -l: "on output, UTM/UPS uses the long forms north and south to designate the hemisphere instead of n or s"
LongZone(t) == Len(t) >= 5 /\ LowerS(SubSeq(t, Len(t) - 4, Len(t))) \in {<<110, 111, 114, 116, 104>>, <<115, 111, 117, 116, 104>>}
GCItems0(cfg, r, out, tk) ==
  CASE r[1] = "geo" /\ cfg.mode \in {"g", "d", ":"} ->
         /\ Len(tk) = 2
         /\ LLClose(r[2], r[3], tk[1], tk[2], cfg.w, IF cfg.mode = "g" THEN Max2L(0, Min2L(9, cfg.prec) + 5) ELSE Max2L(0, Min2L(10, cfg.prec) + 5), cfg.mode # "g")
         /\ (cfg.mode = ":" => \A i \in 1..Len(out) : out[i] \notin {100, 39, 34})
    [] r[1] \in {"utm", "mgrs"} /\ cfg.mode = "u" /\ cfg.prec >= 0 /\ cfg.prec <= 8 ->
         LET q == Reset(out, TRUE, FALSE) IN
         /\ Len(tk) = 3 /\ q[1] = "utm" /\ q[2] = r[2]
         /\ NmDiffLE(q[4], r[4], 5 * Pow10(8 - cfg.prec))
         /\ (r[2] # 0 => NmDiffLE(NorthY(q[3], q[5]), NorthY(r[3], r[5]), 5 * Pow10(8 - cfg.prec)))
         /\ (r[2] = 0 => q[3] = r[3] /\ NmDiffLE(q[5], r[5], 5 * Pow10(8 - cfg.prec)))
    [] cfg.mode = "u" /\ cfg.z # 0 ->
         \* the position in the zone asked for (and in the hemisphere convention asked for), as a legal UTM string
         LET zz == IF Len(tk) = 3 THEN UT!DecodeZone(tk[1]) ELSE <<"throw">> IN
         /\ Len(tk) = 3 /\ zz[1] # "throw" /\ zz[2] = cfg.z /\ (cfg.zn # "" => zz[3] = (cfg.zn = "n"))
         /\ Reset(out, TRUE, FALSE)[1] = "utm"
    [] cfg.mode = "u" -> Len(tk) = 3
    [] cfg.mode = "m" -> Len(tk) <= 1
    [] OTHER -> Len(tk) = 2
GCItems(cfg, r, out, tk) == GCItems0(cfg, r, out, tk) /\ (cfg.mode = "u" /\ Len(tk) = 3 => LongZone(tk[1]) = cfg.l)
GCContent(cfg, s0, out0) ==
  LET s == Body(cfg, s0)  ob == OutBody(cfg, s0, out0)  out == ob[2]
      r == Reset(s, cfg.c, cfg.w)  tk == Tokens(out) IN
  /\ ob[1]                                                   \* the comment is appended, separated by a space
  /\ GCItems(cfg, r, out, tk)

(* ------------------------------ GeodSolve -------------------------------- *)
\* cfg: [tool, mode ("dir" "inv" "line"), prec, w, dms (0, 100 for d ' ", 58 for :), cd (comment delimiter),
\*       arc (-a: "on input and output s12 is replaced by a12 the arc length (in degrees)"; an arc length "can be as
\*       decimal degrees or degrees, minutes, seconds", without hemisphere designator), lat1 lon1 azi1 (mode "line",
\*       -L lat1 lon1 azi1: "each line of standard input gives s13 ... prints lat3 lon3 azi3")]
\* the last item of a direct / line-mode line: a distance (a real number) or, with -a, an arc length
DistOf(cfg, t) == IF cfg.arc THEN DecodeAngle(t) ELSE Val(t)
DistClass(cfg, t) ==
  LET r == DistOf(cfg, t) IN
  IF r[1] = "throw" THEN "bad" ELSE IF cfg.arc /\ r[1] = "fin" /\ (r[9] \/ r[6]) THEN "any" ELSE "good"
DistZero(cfg, t) == LET r == DistOf(cfg, t) IN IF cfg.arc THEN r[1] = "fin" /\ r[3] = 0 /\ r[4] = 0 /\ r[5] ELSE r[1] = "num" /\ r[3] = 0
GSLine(cfg, s0) ==
  LET tk == WTokens(Body(cfg, s0)) IN
  IF cfg.mode = "line" THEN (IF Len(tk) # 1 THEN "bad" ELSE DistClass(cfg, tk[1]))
  ELSE
  IF Len(tk) # 4 THEN "bad"                                   \* Incomplete / Extraneous input
  ELSE LET a == DecodeLatLon(tk[1], tk[2], cfg.w)
           b == IF cfg.mode = "inv" THEN DecodeLatLon(tk[3], tk[4], cfg.w) ELSE <<"ok">>
           az == IF cfg.mode = "inv" THEN <<"ok">> ELSE DecodeAzimuth(tk[3])
           ds == IF cfg.mode = "inv" THEN "good" ELSE DistClass(cfg, tk[4])
           Mixed(x) == x[1] # "throw" /\ Len(x) >= 3 /\ ((x[2][1] = "fin" /\ x[2][9]) \/ (x[3][1] = "fin" /\ x[3][9]))
       IN IF a[1] = "throw" \/ b[1] = "throw" \/ az[1] = "throw" \/ ds = "bad" THEN "bad"
          ELSE IF a[1] = "edge" \/ b[1] = "edge" \/ Mixed(a) \/ Mixed(b) \/ ds = "any" \/ (cfg.mode # "inv" /\ Decode(tk[3])[1] = "fin" /\ Decode(tk[3])[9]) THEN "any"
          ELSE "good"

\* a direct problem of zero length returns its starting point and azimuth (also the point at distance zero on a line)
GSContent(cfg, s0, out0) ==
  LET tk == WTokens(Body(cfg, s0))  ob == OutBody(cfg, s0, out0)  ot == WTokens(ob[2]) IN
  /\ ob[1]                                                   \* the comment is appended, separated by a space
  /\ Len(ot) = (IF cfg.full THEN 12 ELSE 3)
  /\ (cfg.dms = 58 => \A i \in 1..Len(ob[2]) : ob[2][i] \notin {100, 39, 34})      \* -: "like -d, except use : as a separator"
  \* -f: "each line of output consists of 12 quantities: lat1 lon1 azi1 lat2 lon2 azi2 s12 a12 m12 M12 M21 S12": the points
  \* and the azimuth that were read are printed again, so they must be the input to within half a unit of the last digit
  /\ (cfg.full /\ cfg.mode # "line") =>
       LET a == DecodeLatLon(tk[1], tk[2], cfg.w)
           pe == Min2L(10, Max2L(0, cfg.prec)) + 5
           dms == cfg.dms # 0
           h == HalfUnit(IF dms THEN TrailOf(pe) ELSE DEGREE, IF dms THEN PrecOf(pe) ELSE pe)
       IN /\ LLClose(a[2], Reduce180(a[3]), ot[1], ot[2], cfg.w, pe, dms)
          /\ cfg.mode = "inv" => LET b == DecodeLatLon(tk[3], tk[4], cfg.w) IN LLClose(b[2], Reduce180(b[3]), ot[4], ot[5], cfg.w, pe, dms)
          /\ cfg.mode = "dir" => LET az == DecodeAzimuth(tk[3])  oz == DecodeAzimuth(ot[3]) IN
                                   az[1] = "az" => oz[1] = "az" /\ ((h > 0 /\ az[5] /\ oz[5]) => LonDiffLE(oz, az, h))
  /\ cfg.mode # "inv" =>
       LET line == cfg.mode = "line"
           a == IF line THEN DecodeLatLon(cfg.lat1, cfg.lon1, FALSE) ELSE DecodeLatLon(tk[1], tk[2], cfg.w)
           az == DecodeAzimuth(IF line THEN cfg.azi1 ELSE tk[3])
           pe == Min2L(10, Max2L(0, cfg.prec)) + 5
           dms == cfg.dms # 0
           h == HalfUnit(IF dms THEN TrailOf(pe) ELSE DEGREE, IF dms THEN PrecOf(pe) ELSE pe)
       IN (DistZero(cfg, tk[IF line THEN 1 ELSE 4]) /\ a[1] = "ok" /\ a[2][1] = "fin" /\ a[3][1] = "fin" /\ a[2][3] < 89 /\ az[1] = "az") =>
            /\ LLClose(a[2], Reduce180(a[3]), ot[IF cfg.full THEN 4 ELSE 1], ot[IF cfg.full THEN 5 ELSE 2], cfg.w, pe, dms)
            /\ LET oz == DecodeAzimuth(ot[IF cfg.full THEN 6 ELSE 3]) IN
               /\ oz[1] = "az"
               /\ (h > 0 /\ az[5] /\ oz[5]) => LonDiffLE(oz, az, h)
=============================================================================
