INIT Init
NEXT Next
INVARIANTS DistinctArity Counts FullRow Mirror Nested Emit
CHECK_DEADLOCK FALSE
