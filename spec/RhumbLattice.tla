---------------------------- MODULE RhumbLattice ----------------------------
(* Exact integer model of Rhumb / RhumbLine (C09) on the sub-domain where the     *)
(* documented answer is an integer computation.  Written from Rhumb.hpp, the      *)
(* "Rhumb lines" page of the documentation, RhumbSolve(1) and NEWS (2.2), not     *)
(* from Rhumb.cpp.                                                                 *)
(*                                                                                 *)
(* Set-up: the sphere a = 180/pi, f = 0, so that one degree of arc is one metre:   *)
(* latitudes are integers, longitudes are Eps numbers (k + d ulp), distances are   *)
(* integers in degrees of rectifying latitude (on any ellipsoid one such unit is   *)
(* QuarterMeridian/90 and the latitudes 0, +-90 stay on the lattice).  Areas are   *)
(* in "strips": S12 / (c^2 * 1 degree) = lon12 * <sin xi>, c the authalic radius.  *)
(* Numbers on the lattice are compared in pico units as limbs <<hi, lo>> =         *)
(* hi * 10^9 + lo (units of 10^-12).                                               *)
EXTENDS Integers, Sequences

Abs(x) == IF x < 0 THEN -x ELSE x
Sgn(x) == IF x > 0 THEN 1 ELSE IF x < 0 THEN -1 ELSE 0
Max(a, b) == IF a >= b THEN a ELSE b
Min(a, b) == IF a <= b THEN a ELSE b
\* reduction of an integer number of degrees to [-180, 180)
Reduce(D) == ((D + 180) % 360) - 180
IsPole(lat) == Abs(lat) = 90

(* ------------------------------------------------------------------ inverse *)
(* Longitude difference lon2 - lon1 for lon1 = k1, lon2 = k2 + d ulp, as the Eps   *)
(* number <<n, e>> = n + e eps in (-180, 180].  "This finds the shortest such      *)
(* rhumb line, i.e., the one that wraps no more than half way around the earth.    *)
(* If the end points are on opposite meridians, there are two shortest rhumb lines *)
(* and the east-going one is chosen."  (rule TieEast)                              *)
Lon12(k1, k2, d) ==
  LET r == Reduce(k2 - k1) IN
  IF r = -180 THEN (IF d > 0 THEN <<-180, 1>> ELSE IF d < 0 THEN <<180, -1>> ELSE <<180, 0>>)
  ELSE <<r, d>>
IsTie(k1, k2, d) == Reduce(k2 - k1) = -180 /\ d = 0
(* Named deviation TieSignOfDifference: Math::AngDiff documents that a difference  *)
(* of +-180 takes the sign of lon2 - lon1; a solver built on it resolves the tie   *)
(* west-going when lon2 < lon1.  NOT admitted by the rhumb documentation; used     *)
(* only to classify a rejection of the law rh-tie-east.                            *)
Lon12SignOfDiff(k1, k2, d) ==
  IF IsTie(k1, k2, d) THEN (IF k2 > k1 THEN <<180, 0>> ELSE <<-180, 0>>) ELSE Lon12(k1, k2, d)
ESgn(e) == IF e[1] # 0 THEN Sgn(e[1]) ELSE Sgn(e[2])
ENeg(e) == <<-e[1], -e[2]>>

(* Class of the azimuth of the course: "N" = exactly 0, "S" = exactly +-180,       *)
(* "E"/"W" = exactly +-90, quadrants, "any" = unspecified (coincident points).     *)
(* tan(azi12) = lam12 / psi12 with the quadrant given by the signs.  A course that *)
(* ends (or starts) at a pole is the meridian through the other point (NEWS 2.2:   *)
(* "rhumb lines which include a pole as one of the endpoints are treated           *)
(* properly"; tests RhumbSolve0-3): rule PoleEndpointProper.                       *)
AziClass(lat1, lat2, l12) ==
  LET dl == ESgn(l12)  dp == Sgn(lat2 - lat1) IN
  IF IsPole(lat1) /\ lat1 = lat2 THEN "any"
  ELSE IF IsPole(lat1) \/ IsPole(lat2) THEN (IF dp > 0 THEN "N" ELSE "S")
  ELSE IF dl = 0 THEN (IF dp > 0 THEN "N" ELSE IF dp < 0 THEN "S" ELSE "any")
  ELSE IF dp = 0 THEN (IF dl > 0 THEN "E" ELSE "W")
  ELSE IF dp > 0 THEN (IF dl > 0 THEN "NE" ELSE "NW")
  ELSE (IF dl > 0 THEN "SE" ELSE "SW")

Opposite(c) ==
  CASE c = "N" -> "S" [] c = "S" -> "N" [] c = "E" -> "W" [] c = "W" -> "E"
    [] c = "NE" -> "SW" [] c = "SW" -> "NE" [] c = "NW" -> "SE" [] c = "SE" -> "NW" [] OTHER -> "any"
\* reflection in the parallel: north <-> south with the east/west sense kept
FlipNS(c) ==
  CASE c = "N" -> "S" [] c = "S" -> "N" [] c = "NE" -> "SE" [] c = "SE" -> "NE"
    [] c = "NW" -> "SW" [] c = "SW" -> "NW" [] OTHER -> c

(* Distance in pico-degrees of rectifying latitude, <<>> where it is not a lattice *)
(* value.  MerS12: meridian arc (same meridian, or a pole at either end).          *)
(* ParS12: parallel-circle length a cos(beta) |lam12| on the sphere for the        *)
(* equator (cos = 1) and latitude +-60 (cos = 1/2).                                *)
MerS12(lat1, lat2, l12) ==
  IF IsPole(lat1) \/ IsPole(lat2) \/ (l12[1] = 0) THEN <<Abs(lat2 - lat1) * 1000, 0>> ELSE <<>>
ParS12(lat1, lat2, l12) ==
  IF lat1 # lat2 \/ IsPole(lat1) THEN <<>>
  ELSE IF lat1 = 0 THEN <<Abs(l12[1]) * 1000, 0>>
  ELSE IF Abs(lat1) = 60 THEN <<Abs(l12[1]) * 500, 0>>
  ELSE <<>>

(* Area in pico-strips.  "the area, measured counter-clockwise, of the rhumb line  *)
(* quadrilateral with corners (lat1,lon1), (0,lon1), (0,lon2), (lat2,lon2)".       *)
(* Zero along a meridian and along the equator; a course ending at a pole sweeps   *)
(* the whole polar strip (test RhumbSolve2: 1/24 of the ellipsoid for lon12 = 30); *)
(* on the sphere the parallel +-30 has sin = +-1/2.  Unspecified between poles.    *)
AnyArea(lat1, lat2, l12) ==
  IF IsPole(lat1) /\ IsPole(lat2) THEN <<>>
  ELSE IF IsPole(lat2) THEN <<Sgn(lat2) * l12[1] * 1000, 0>>
  ELSE IF IsPole(lat1) THEN <<Sgn(lat1) * l12[1] * 1000, 0>>
  ELSE IF l12[1] = 0 THEN <<0, 0>>
  ELSE IF lat1 = 0 /\ lat2 = 0 THEN <<0, 0>>
  ELSE <<>>
SphArea(lat1, lat2, l12) ==
  IF lat1 = lat2 /\ Abs(lat1) = 30 THEN <<Sgn(lat1) * l12[1] * 500, 0>> ELSE <<>>

(* ------------------------------------------------------------------- direct *)
LatAzi == {0, 60, 90, 120, 180, 240, 270, 300}
\* 2 cos(azi) and the sign of sin(azi) for the lattice azimuths
C2(azi) ==
  LET a == azi % 360 IN
  CASE a = 0 -> 2 [] a \in {60, 300} -> 1 [] a \in {90, 270} -> 0 [] a \in {120, 240} -> -1 [] a = 180 -> -2
SinSgn(azi) == LET a == azi % 360 IN IF a \in 1..179 THEN 1 ELSE IF a \in 181..359 THEN -1 ELSE 0
OnLattice(azi, s) == (azi % 360) \in LatAzi /\ (s * C2(azi)) % 2 = 0
\* rectifying latitude reached, before folding:  mu2 = mu1 + s12 cos(azi12)
Mu2(lat1, azi, s) == lat1 + ((s * C2(azi)) \div 2)
(* "If s12 is large enough that the rhumb line crosses a pole, the longitude of    *)
(* point 2 is indeterminate (a NaN is returned for lon2 and S12)"; the latitude is *)
(* that of the point reached by continuing along the meridian circle.              *)
Reflect(m) == LET r == Reduce(m) IN IF r > 90 THEN 180 - r ELSE IF r < -90 THEN -180 - r ELSE r
(* "cross": beyond a pole.  "edge": ends exactly at a pole; the documentation      *)
(* speaks of courses that CROSS a pole, so both the regular answer and an          *)
(* indeterminate longitude/area are admitted (rule PoleEdgeEither).  "polestart":  *)
(* starts at a pole and moves away from it; Rhumb.hpp promises a finite result     *)
(* (pole moved by eps^2), NEWS 2.2 says poles are treated properly and the longi-  *)
(* tude of a spiral leaving the pole is indeterminate: both are admitted (rule     *)
(* PoleStartIndeterminate).                                                        *)
DirClass(lat1, azi, s) ==
  LET m == Mu2(lat1, azi, s) IN
  IF Abs(m) > 90 THEN "cross" ELSE IF Abs(m) = 90 THEN "edge" ELSE IF IsPole(lat1) THEN "polestart" ELSE "reg"
\* change of longitude (degrees, unrolled) where it is a lattice value: <<n>>, else <<>>
MerLon12(azi) == IF C2(azi) \in {2, -2} THEN <<0>> ELSE <<>>
SphLon12(lat1, azi, s) ==
  IF C2(azi) # 0 THEN <<>>
  ELSE IF lat1 = 0 THEN <<s * SinSgn(azi)>>
  ELSE IF Abs(lat1) = 60 THEN <<2 * s * SinSgn(azi)>>
  ELSE <<>>
\* "The value of lon2 returned is in the range [-180, 180]": both signs of 180 admitted
NormSet(x) == LET r == Reduce(x) IN IF r = -180 THEN {-180, 180} ELSE {r}

(* ------------------------------------------------- output masks, call forms *)
(* Rhumb::mask / RhumbLine::mask ("RhumbLine::mask is a duplication of this enum") *)
(* have six bits.  They are numbered here 0..5 in the order LATITUDE, LONGITUDE,   *)
(* AZIMUTH, DISTANCE, AREA, LONG_UNROLL and a mask is exchanged with the driver as *)
(* the integer sum of 2^i; the driver translates it with the enum constants of the *)
(* class it calls.  "outmask: a bitor'ed combination of Rhumb::mask values         *)
(* specifying which of the following parameters should be set": an output argument *)
(* is written iff its bit is in the mask (rule WrittenIffRequested, as for the     *)
(* geodesic classes in GeodLine.tla) and its value does not depend on which other  *)
(* outputs are requested.  LONG_UNROLL selects the form of lon2 only.              *)
BLAT == 0  BLON == 1  BAZI == 2  BDIST == 3  BAREA == 4  BUNROLL == 5
MaskBits == 0..5
MaskSet(m) == {i \in MaskBits : (m \div (2 ^ i)) % 2 = 1}
RECURSIVE MaskNum(_)
MaskNum(S) == IF S = {} THEN 0 ELSE LET i == CHOOSE x \in S : TRUE IN (2 ^ i) + MaskNum(S \ {i})
\* "ALL: Calculate everything.  (LONG_UNROLL is not included in this mask.)"
AllMask == {BLAT, BLON, BAZI, BDIST, BAREA}

(* Call forms.  The general routines take a mask; "Rhumb::Direct is defined in     *)
(* terms of this function", "RhumbLine::Position is defined in terms of this       *)
(* function", "Rhumb::Inverse is defined in terms of this function": every other   *)
(* member is an overload of a general routine, named here by the number of its     *)
(* output arguments ("... returning also the area" = 3, "... without the area" = 2)*)
DirectForms == {"GenDirect", "GenPosition", "Direct3", "Direct2", "Position3", "Position2"}
InverseForms == {"GenInverse", "Inverse3", "Inverse2"}
Forms == DirectForms \cup InverseForms
General(form) == form \in {"GenDirect", "GenPosition", "GenInverse"}
GeneralOf(form) ==
  CASE form \in {"GenDirect", "Direct3", "Direct2"} -> "GenDirect"
    [] form \in {"GenPosition", "Position3", "Position2"} -> "GenPosition"
    [] OTHER -> "GenInverse"
\* the output arguments in the signature of a form
Args(form) ==
  CASE form \in {"GenDirect", "GenPosition", "Direct3", "Position3"} -> {BLAT, BLON, BAREA}
    [] form \in {"Direct2", "Position2"} -> {BLAT, BLON}
    [] form \in {"GenInverse", "Inverse3"} -> {BDIST, BAZI, BAREA}
    [] form = "Inverse2" -> {BDIST, BAZI}
\* the quantities a family can return at all (the other bits of a mask are without effect)
Outputs(form) == IF form \in DirectForms THEN {BLAT, BLON, BAREA} ELSE {BDIST, BAZI, BAREA}
(* The mask a call stands for.  An overload requests exactly its output arguments  *)
(* and never unrolls: "The value of lon2 returned is in the range [-180, 180]" is  *)
(* stated for Direct and Position; only the general routines document LONG_UNROLL. *)
FormMask(form, m) == IF General(form) THEN MaskSet(m) ELSE Args(form)
Written(form, m) == FormMask(form, m) \cap Outputs(form)
Unrolled(form, m) == BUNROLL \in FormMask(form, m)

(* Observation of one output argument after a call whose outputs were preset to a  *)
(* sentinel: -1 = the form has no such argument, otherwise the sum of              *)
(*   1  the argument still holds the sentinel                                      *)
(*   2  bit-identical to the result of the general routine called with ALL         *)
(*   4  bit-identical to the result of the general routine with ALL + LONG_UNROLL  *)
(*   8  finite and outside [-180, 180]                                             *)
CodeHas(c, b) == c >= 0 /\ (c \div b) % 2 = 1
ArgSet(form, m, bit, c) ==
  IF bit \notin Args(form) THEN c = -1 ELSE c >= 0 /\ (CodeHas(c, 1) = (bit \notin Written(form, m)))
ArgVal(form, m, bit, c) ==
  (bit \in Args(form) /\ bit \in Written(form, m)) =>
     IF bit = BLON /\ Unrolled(form, m) THEN CodeHas(c, 4) ELSE CodeHas(c, 2)
ArgRange(form, m, bit, c) ==
  (bit = BLON /\ bit \in Written(form, m) /\ ~Unrolled(form, m)) => ~CodeHas(c, 8)
\* order of the codes in a record: <<lat2, lon2, S12>> resp. <<s12, azi12, S12>>
ArgBits(form) == IF form \in DirectForms THEN <<BLAT, BLON, BAREA>> ELSE <<BDIST, BAZI, BAREA>>
FormSet(form, m, o) == Len(o) = 3 /\ \A i \in 1..3 : ArgSet(form, m, ArgBits(form)[i], o[i])
FormVal(form, m, o) == Len(o) = 3 /\ \A i \in 1..3 : ArgVal(form, m, ArgBits(form)[i], o[i])
FormRange(form, m, o) == Len(o) = 3 /\ \A i \in 1..3 : ArgRange(form, m, ArgBits(form)[i], o[i])

(* -------------------------------------------------------------- pico limbs *)
\* |<<hi, lo>> - <<ehi, elo>>| <= tol (pico units), both limbs carrying the sign of the value
NearP(A, E, tol) ==
  /\ Len(A) = 2 /\ Len(E) = 2
  /\ A[1] - E[1] <= 1 /\ E[1] - A[1] <= 1
  /\ LET e == (A[1] - E[1]) * 1000000000 + A[2] - E[2] IN e <= tol /\ -e <= tol
PInt(n) == <<n * 1000, 0>>
=============================================================================
