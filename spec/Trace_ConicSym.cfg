INIT Init
NEXT Next
CONSTANTS Tol = 1568 TolK = 7000 TolLat0 = 45 TolFD = 1000000 CondMult = 16 LonUlps = 4 OcnMax = 20 OcnMult = 64
POSTCONDITION Summary
CHECK_DEADLOCK FALSE
