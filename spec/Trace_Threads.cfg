INIT Init
NEXT Next
CONSTANTS ModelNames = 59
POSTCONDITION Summary
CHECK_DEADLOCK FALSE
