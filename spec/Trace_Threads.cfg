INIT Init
NEXT Next
CONSTANTS ModelNames = 39
POSTCONDITION Summary
CHECK_DEADLOCK FALSE
