---------------------------- MODULE EllipsoidLaws ----------------------------
(***************************************************************************)
(* Ellipsoid measures (property C15), from Ellipsoid.hpp: every inspector   *)
(* equals its defining expression (residuals against binary128 evaluations  *)
(* of the definitions, unit 2^-53) and agrees with the same quantity from    *)
(* Geodesic, GeodesicExact, Rhumb, TransverseMercator(Exact) and Geocentric. *)
(* Cross-class tolerances are the sums of the documented errors, as          *)
(* distances divided by the equatorial radius of WGS84:                      *)
(*   Ellipsoid 15 nm (general statement), Geodesic 25 nm for |f| <= 0.01,    *)
(*   GeodesicExact 96 nm per 10000 km for b/a in [1/4, 4] (table in          *)
(*   GeodesicExact.hpp), Rhumb 15 nm, TransverseMercator 5 nm,               *)
(*   TransverseMercatorExact 8 nm (f > 0), Geocentric 7 nm.                  *)
(***************************************************************************)
EXTENDS Elliptic

TolRel(F) == TolTan(F)
Nm(n) == (n * 1412) \div 1000 + 1            \* n nanometres / 6378137 m in units of 2^-53 (1 nm = 1.4122 units)
SmallF(F) == Abs(F) <= 10000                 \* series classes: "full accuracy for -0.01 <= f <= 0.01"
MidF(F) == F >= -3000000 /\ F <= 750000      \* b/a in [1/4, 4]
XGeod == Nm(25 + 15)
XRhumb == Nm(15 + 15)
XTM == Nm(5 + 15)
XGeodEx(F) == Nm(96) * 2 + TolRel(F)         \* table entry is relative to a quarter meridian of 10000 km (factor pi/2 < 2)
XTMEx(F) == Nm(8) + TolRel(F)
XGeoc(F) == Nm(7) + TolRel(F)
AllGood(S, tol) == \A i \in DOMAIN S : Good(S[i], tol)
AllGoodOrSkipped(S, tol) == \A i \in DOMAIN S : GoodOrSkipped(S[i], tol)

\* per ellipsoid: quarter meridian, area, volume, semi-axes, shape parameters; the other classes
ElqOK(r) ==
  /\ Good(r.rL, TolRel(r.F)) /\ GoodOrSkipped(r.rLq, TolRel(r.F)) /\ Good(r.rA, TolRel(r.F)) /\ GoodOrSkipped(r.rAq, TolRel(r.F))
  /\ Good(r.rV, TolRel(r.F)) /\ Good(r.rb, TolRel(r.F)) /\ r.ra = 0
  /\ AllGood(r.sh, TolRel(r.F))
  /\ (SmallF(r.F) => Good(r.xg, XGeod) /\ Good(r.xr, XRhumb) /\ Good(r.xt, XTM) /\ Good(r.ag, XGeod) /\ Good(r.ar, XRhumb))
  /\ (MidF(r.F) => Good(r.xge, XGeodEx(r.F)) /\ Good(r.age, XGeodEx(r.F)))
  /\ Good(r.xre, 2 * TolRel(r.F)) /\ Good(r.are, 2 * TolRel(r.F))
  /\ (r.F > 0 /\ r.F <= 100000 => Good(r.xte, XTMEx(r.F)))

\* per latitude: meridian distance, radii of curvature, circle of latitude; residuals of lengths are divided by a
ElmOK(r) ==
  /\ Good(r.rs, TolRel(r.F)) /\ Good(r.rsm, 3 * TolRel(r.F))
  /\ Good(r.rrho, TolRel(r.F)) /\ Good(r.rnu, TolRel(r.F)) /\ Good(r.rnc, 2 * TolRel(r.F))
  /\ Good(r.rR, TolRel(r.F)) /\ Good(r.rZ, TolRel(r.F)) /\ Good(r.rRn, 2 * TolRel(r.F))
  /\ (Abs(r.F) <= 100000 => GoodOrSkipped(r.rds, 16777216))      \* rho = ds/dphi by a symmetric difference: coarse (1.9e-9)
  /\ (SmallF(r.F) => Good(r.xg, XGeod) /\ Good(r.xr, XRhumb) /\ Good(r.xt, XTM))
  /\ (MidF(r.F) => Good(r.xge, XGeodEx(r.F)))
  /\ Good(r.xre, 2 * TolRel(r.F))
  /\ (r.F > 0 /\ r.F <= 100000 => Good(r.xte, XTMEx(r.F)))
  /\ Good(r.xcR, XGeoc(r.F)) /\ Good(r.xcZ, XGeoc(r.F))

IsPole90(v) == (v[1] = 1 \/ v[1] = -1) /\ v[2] = -46 /\ v[3] = 2949120 /\ v[4] = 0

\* latitude conversions in degrees: forward and inverse against the definitions (angles, unit 2^-53 rad), the round
\* trip where the degree representation is well conditioned, exact fixed points; the isometric latitude
EllOK(r) ==
  /\ AllGood(r.rf, TolAng(r.F)) /\ AllGood(r.ri, TolAng(r.F))
  /\ (Abs(r.F) <= 100000 => AllGood(r.rb, 2 * TolAng(r.F)) /\ Good(r.rpb, 2 * TolAng(r.F)))
  /\ \A i \in DOMAIN r.fix : r.fix[i] = 1
  \* Iso_PoleInfinite (named deviation): Ellipsoid.hpp says the value at +-90 is "some (positive or negative) large but
  \* finite value"; the library returns +-infinity there (class 2 / 3), and the inverse still returns the pole.
  /\ (r.psic = 0 \/ (IsPole90(r.phi) /\ r.psic = (IF r.phi[1] = 1 THEN 2 ELSE 3)))
  /\ GoodOrSkipped(r.rpsi, 2 * TolRel(r.F))
  /\ (IsPole90(r.phi) => r.pbeq)                            \* "such that InverseIsometricLatitude returns the original value"
  /\ Good(r.rip, 2 * TolAng(r.F))

\* The global instantiations AuxLatitude::WGS84() (which = 0) and Ellipsoid::WGS84() (which = 1): "the parameters for the WGS84
\* ellipsoid" are a = 6378137 m and f = 1/298.257223563 (Constants.hpp).  a is logged in nanometres and 1/f in units of 1e-9 as
\* limbs <<hi, lo>> = hi * 10^9 + lo; every inspector and conversion agrees bit for bit with an object built from those constants.
WGS84A == <<6378137, 0>>
WGS84RF == <<298, 257223563>>
SingOK(r) == r.which \in {0, 1} /\ r.a = WGS84A /\ r.rf = WGS84RF /\ \A i \in DOMAIN r.same : r.same[i] = 1

\* flattening and eccentricity interconversions
ElfOK(r) ==
  /\ AllGood(r.to, TolRel(r.F)) /\ AllGood(r.back, 2 * TolRel(r.F)) /\ AllGoodOrSkipped(r.def, TolRel(r.F))
=============================================================================
