--------------------------- MODULE IntersectLattice ---------------------------
(***************************************************************************)
(* Intersections of great circles on the unit-degree sphere (a = 180/pi,    *)
(* f = 0: one degree of arc is one metre), property C17, written from        *)
(* Intersect.hpp and IntersectTool(1).                                       *)
(*                                                                          *)
(* A great circle is <<inc, node>> as in SphereLattice (position = arc sig   *)
(* from the ascending node); a LINE is a circle with a starting arc s, a     *)
(* displacement x along it leads to the arc s + x.  Two distinct great       *)
(* circles meet in two antipodal points P, -P, at arcs a0, a0 + 180 of A and  *)
(* b0, b0 + 180 of B; hence the intersections of the lines (A, sA), (B, sB)   *)
(* are exactly the displacement pairs                                        *)
(*        (x0 + 180 i, y0 + 180 j),  i + j even,  x0 = a0 - sA, y0 = b0 - sB. *)
(* Meet(A, B) gives <<a0, b0>> for the pairs whose meeting points are        *)
(* lattice positions (common node line, equator x anything, two meridians,   *)
(* meridian through the apex of an oblique circle) and the coincidence data  *)
(* for equal planes.  MC_GeodConstr checks Meet against the positions of      *)
(* SphereLattice (both arcs name the same point of the sphere).              *)
(*                                                                          *)
(* Closest = argmin of the L1 distance |x - p0x| + |y - p0y| (a SET: "equi-  *)
(* distant closest intersections are surprisingly common"), Next = the same   *)
(* without [0,0], Segment = the intersection inside both segments if there    *)
(* is one, otherwise the one closest to the midpoints, All = every            *)
(* intersection within maxdist, sorted by distance.                           *)
(***************************************************************************)
EXTENDS SphereLattice, Sequences

Equatorial(A) == A[1] \in {0, 180}
PLat(A, s) == Lat(A[1], s)
PLon(A, s) == Norm180(A[2] + LonAt(A[1], s))
PAzi(A, s) == Azi(A[1], s)
\* a starting arc the driver can realise with integer latitude, longitude and azimuth
Startable(A, s) == IsLattice(A[1], s) /\ ~AtPole(A[1], s)

Top(inc) == IF inc < 90 THEN inc ELSE 180 - inc
ApexLon(B) == IF B[1] < 90 THEN B[2] + 90 ELSE B[2] - 90

\* meridian A through the apex (arc 90) of the oblique circle B
MerObl(A, B) ==
  LET da == (ApexLon(B) - A[2]) % 360 IN
  IF da = 0 THEN [kind |-> "cross", a0 |-> Top(B[1]), b0 |-> 90]
  ELSE IF da = 180 THEN [kind |-> "cross", a0 |-> 180 - Top(B[1]), b0 |-> 90]
  ELSE [kind |-> "none"]
Swap(m) == IF m.kind = "cross" THEN [kind |-> "cross", a0 |-> m.b0, b0 |-> m.a0] ELSE m

\* kind "coin": same great circle; arc of B = c * (arc of A) + off (mod 360); c = +1 parallel, -1 antiparallel
Meet(A, B) ==
  LET ia == A[1]  na == A[2]  ib == B[1]  nb == B[2]
      dn == (nb - na) % 360
  IN IF Equatorial(A) /\ Equatorial(B) THEN
       [kind |-> "coin", c |-> IF ia = ib THEN 1 ELSE -1,
        off |-> (IF ia = ib THEN (IF ia = 0 THEN na - nb ELSE nb - na) ELSE (IF ia = 0 THEN nb - na ELSE na - nb)) % 360]
     ELSE IF Equatorial(A) THEN [kind |-> "cross", a0 |-> (IF ia = 0 THEN nb - na ELSE na - nb) % 360, b0 |-> 0]
     ELSE IF Equatorial(B) THEN [kind |-> "cross", a0 |-> 0, b0 |-> (IF ib = 0 THEN na - nb ELSE nb - na) % 360]
     ELSE IF dn = 0 THEN (IF ia = ib THEN [kind |-> "coin", c |-> 1, off |-> 0] ELSE [kind |-> "cross", a0 |-> 0, b0 |-> 0])
     ELSE IF dn = 180 THEN (IF ib = 180 - ia THEN [kind |-> "coin", c |-> -1, off |-> 180] ELSE [kind |-> "cross", a0 |-> 0, b0 |-> 180])
     ELSE IF ia = 90 /\ ib = 90 THEN [kind |-> "cross", a0 |-> 90, b0 |-> 90]
     ELSE IF ia = 90 /\ ib \in Obliques THEN MerObl(A, B)
     ELSE IF ib = 90 /\ ia \in Obliques THEN Swap(MerObl(B, A))
     ELSE [kind |-> "none"]

(* ------------------------------------------------------------------------ *)
(* The intersection lattice <<x0 + step i, y0 + step j>>, i + j even          *)
(* (step = 180, or 360 when all displacements are doubled).                   *)
(* ------------------------------------------------------------------------ *)
L1(p, q) == Abs(p[1] - q[1]) + Abs(p[2] - q[2])
Idx(x0, step, c, r) == (((c - r - x0) \div step) - 1)..(((c + r - x0) \div step) + 1)
\* every intersection within L1 distance r of p0
Within(x0, y0, step, p0, r) ==
  {p \in {<<x0 + step * i, y0 + step * j>> : i \in Idx(x0, step, p0[1], r), j \in Idx(y0, step, p0[2], r)} :
     L1(p, p0) <= r /\ (((p[1] - x0) \div step) + ((p[2] - y0) \div step)) % 2 = 0}
ArgMin(S, p0) == {p \in S : \A q \in S : L1(p, p0) <= L1(q, p0)}
\* the Voronoi radius of the lattice in the L1 metric is step: there is always an intersection within that distance
ClosestSet(x0, y0, step, p0) == ArgMin(Within(x0, y0, step, p0, step), p0)
NextSet(x0, y0, step) == ArgMin(Within(x0, y0, step, <<0, 0>>, 2 * step) \ {<<0, 0>>}, <<0, 0>>)

\* segment indicator k = 3 kx + ky for an intersection <<x, y>> and segment lengths sx, sy (same units)
KCode(x, s) == IF x < 0 THEN -1 ELSE IF x <= s THEN 0 ELSE 1
\* SegEdgeFree: an intersection exactly at a segment end may be classified on either side (round-off)
KCodes(x, s) == {KCode(x, s)} \cup (IF x = 0 THEN {-1} ELSE {}) \cup (IF x = s THEN {1} ELSE {})
SegModes(p, sx, sy) == {3 * kx + ky : kx \in KCodes(p[1], sx), ky \in KCodes(p[2], sy)}
InBoth(p, sx, sy) == p[1] >= 0 /\ p[1] <= sx /\ p[2] >= 0 /\ p[2] <= sy
\* admissible <<point, segmode>> answers; all quantities doubled (midpoints are half integers): X0 = 2 x0, SX = 2 sx, ...
SegmentSet(X0, Y0, SX, SY) ==
  LET mid == <<SX \div 2, SY \div 2>>
      inside == {p \in Within(X0, Y0, 360, mid, (SX + SY) \div 2) : InBoth(p, SX, SY)}
      \* an intersection inside both segments (lengths < 180) is unique and is also the closest to the midpoints
      base == IF inside # {} THEN inside ELSE ClosestSet(X0, Y0, 360, mid)
  IN {a \in base \X (-4..4) : a[2] \in SegModes(a[1], SX, SY)}

(* ------------------------------------------------------------------------ *)
(* Coincident circles: the "intersections" are the whole line                 *)
(*      y = c x + k0 (mod 360),  k0 = c sA + off - sB.                         *)
(* The closest one to p0 is any point of the line at the minimal L1 distance  *)
(* |e|, e = (p0y - c p0x - k0) reduced to (-180, 180] (the library returns    *)
(* the centre of that set; the documentation leaves the choice open).         *)
(* ------------------------------------------------------------------------ *)
CoinK0(m, sA, sB) == (m.c * sA + m.off - sB) % 360
CoinMinDist(m, sA, sB, p0) == Abs(Norm180(p0[2] - m.c * p0[1] - CoinK0(m, sA, sB)))

(* ------------------------------------------------------------------------ *)
(* Segments cut from ONE circle (coincident circles).  Intersect.hpp:        *)
(* segmode is "an indicator equal to zero if the segments intersect", the    *)
(* result is "the intersection point if the segments intersect, otherwise    *)
(* the intersection point closest to the midpoints of the two segments", and  *)
(* c = +-1 where the geodesics lie on top of one another.  Two pieces of one   *)
(* circle intersect when they overlap: then the answer is a common point       *)
(* INSIDE both pieces (any point of the overlap: the header leaves the choice  *)
(* open) and segmode = 0.  Otherwise the answer is a point of a coincidence    *)
(* line at the minimal L1 distance from the midpoints (again a whole set).     *)
(* Pieces that only touch in an end point fall under SegEdgeFree.              *)
(* All quantities doubled (midpoints are half integers): the coincidence       *)
(* lines are  Y = c X + K,  K = 2 k0 + 720 j.                                  *)
(* ------------------------------------------------------------------------ *)
IMax(a, b) == IF a >= b THEN a ELSE b
IMin(a, b) == IF a <= b THEN a ELSE b
CoinKs(m, sA, sB) == {2 * CoinK0(m, sA, sB) + 720 * j : j \in -2..2}
\* the part <<lo, hi>> (in X) of the line Y = c X + K that lies in the rectangle [0, SX] x [0, SY]; empty when lo > hi
OvIv(c, K, SX, SY) == IF c = 1 THEN <<IMax(0, -K), IMin(SX, SY - K)>> ELSE <<IMax(0, K - SY), IMin(SX, K)>>
Overlap(c, Ks, SX, SY) == \E K \in Ks : OvIv(c, K, SX, SY)[1] < OvIv(c, K, SX, SY)[2]
Touch(c, Ks, SX, SY) == \E K \in Ks : OvIv(c, K, SX, SY)[1] = OvIv(c, K, SX, SY)[2]
OnCoin(p, c, Ks) == (p[2] - c * p[1]) \in Ks
CoinDist(mid, c, Ks) == LET D == {Abs(mid[2] - c * mid[1] - K) : K \in Ks} IN CHOOSE d \in D : \A e \in D : d <= e
\* is <<p, segmode>> an admissible answer for the pieces [0, SX], [0, SY] ?
SegCoinOK(p, segmode, c, Ks, SX, SY) ==
  LET mid == <<SX \div 2, SY \div 2>> IN
  /\ OnCoin(p, c, Ks)
  /\ segmode \in SegModes(p, SX, SY)
  /\ IF Overlap(c, Ks, SX, SY) THEN InBoth(p, SX, SY)
     ELSE L1(p, mid) = CoinDist(mid, c, Ks)
\* the admissible answers on the doubled integer lattice (for the model invariants): the points of the coincidence lines inside
\* the rectangle when the pieces overlap, otherwise those at the minimal distance D from the midpoints (they lie within D of it)
SegCoinPts(c, Ks, SX, SY) ==
  LET mid == <<SX \div 2, SY \div 2>>
      D == CoinDist(mid, c, Ks)
  IN IF Overlap(c, Ks, SX, SY)
     THEN {p \in {<<x, c * x + K>> : x \in 0..SX, K \in Ks} : InBoth(p, SX, SY)}
     ELSE {p \in {<<x, c * x + K>> : x \in (mid[1] - D)..(mid[1] + D), K \in Ks} : L1(p, mid) = D}
SegCoinSet(c, Ks, SX, SY) == UNION {{<<p, sm>> : sm \in SegModes(p, SX, SY)} : p \in SegCoinPts(c, Ks, SX, SY)}

(* ------------------------------------------------------------------------ *)
(* Next on coincident lines (both start at one point: y = c x + 360 j).  The   *)
(* header only says that the answer "minimizes Dist(p) (excluding p =          *)
(* [0,0])" and that c = +-1 where the lines lie on top of one another: the      *)
(* answer is a common point, not the origin, and carries the right c.           *)
(* ------------------------------------------------------------------------ *)
\* lin = 2 (y - c x) of the answer (the place along the line need not be a lattice position: on an ellipsoid it is a conjugate point)
NextCoinOK(lin, atOrigin, c, mc) == c = mc /\ lin % 720 = 0 /\ ~atOrigin
=============================================================================
