---------------------------- MODULE MC_MGRS ----------------------------
(* Lattice enumeration for MGRS (C05).  root -> chunk c -> vectors.           *)
EXTENDS MGRS, TLC, Json

CONSTANTS Stride, Part, NChunks, Zones
VARIABLE v

D3 == {-1, 0, 1}
B2 == {TRUE, FALSE}
InChunk(S, C) == {x \in S : x % NChunks = C}
Off == {0, 1, 43210, 99999}
Tiles(lo, hi, crit) == {t \in lo..hi : t % Stride = 0} \cup ({k + j : k \in crit, j \in -1..1} \cap (lo..hi))

XU == {t * Tile + o : t \in 0..9, o \in Off}
YNt == Tiles(-91, 96, {-90, 0, 70, 71, 79, 80, 95})
YSt == Tiles(9, 196, {10, 20, 29, 30, 99, 100, 195})
XFewU == {100000, 234567, 500000, 899999, 900000}
YFewN == {0, 1, 1234567, 7100000, 7999999, 9499999, 9500000, -1, -8999999}
YFewS == {10000000, 9999999, 8765433, 2900000, 2000001, 1000000, 999999, 10000001, 19499999}
Precs == {-1, 0, 1, 5, 6, 11}

\* a synthetic geometry (spherical, 0.9 degree per 100 km, latitude falling 0.05 degree per column) --
\* only used to exercise Reverse's bookkeeping in the model; real geometry comes with the trace.
SynTbl == [c \in 1..5 |-> [r \in 1..97 |-> 900000 * (r - 1) - 50000 * (c - 1)]]
SynBand(y) == LET b == FloorDiv(y * 9, 8 * 1000000) IN IF b < -10 THEN -10 ELSE IF b > 9 THEN 9 ELSE b

\* supplied latitudes for "mfl": 8-degree band edges (offsets -1, 0, +1 micro-degree) and band centres
XCols == {150000, 250000, 350000, 450000, 550000, 650000, 750000, 850000}
LatOffs == {<<e, o>> : e \in -1..2, o \in {-1, 0, 1}} \cup {<<e, 4000000>> : e \in -2..2}
LatAt(b, j) == LET k == 8000000 * (b + j[1]) + j[2] IN IF k > 90000000 THEN 90000000 ELSE IF k < -90000000 THEN -90000000 ELSE k

VecMF(C) ==
  \/ \E x \in InChunk(XU, C), dx \in D3, y \in YFewN, z \in Zones, p \in Precs : v' = <<"mf", z, TRUE, x, dx, y, 0, p>>
  \/ \E x \in InChunk(XU, C), dx \in D3, y \in YFewS, z \in Zones, p \in Precs : v' = <<"mf", z, FALSE, x, dx, y, 0, p>>
  \/ \E t \in InChunk(YNt, C), o \in Off, dy \in D3, x \in XFewU, z \in {31, 32}, p \in {0, 5, 11} : v' = <<"mf", z, TRUE, x, 0, t * Tile + o, dy, p>>
  \/ \E t \in InChunk(YSt, C), o \in Off, dy \in D3, x \in XFewU, z \in {31, 32}, p \in {0, 5, 11} : v' = <<"mf", z, FALSE, x, 0, t * Tile + o, dy, p>>
  \* corners with both perturbations
  \/ \E x \in InChunk({100000, 900000, 500000}, C), dx \in D3, y \in {0, 9500000, -9000000, 100000}, dy \in D3, p \in {0, 11} :
        v' = <<"mf", 31, TRUE, x, dx, y, dy, p>>
  \/ \E x \in InChunk({100000, 900000, 500000}, C), dx \in D3, y \in {10000000, 1000000, 19500000}, dy \in D3, p \in {0, 11} :
        v' = <<"mf", 31, FALSE, x, dx, y, dy, p>>
  \* UPS
  \/ \E t \in InChunk(7..33, C), o \in Off, dx \in D3, y \in {800000, 1300000, 2000000, 2699999, 3199999}, n \in B2, p \in {0, 5, 11} :
        v' = <<"mf", 0, n, t * Tile + o, dx, y, 0, p>>
  \/ \E t \in InChunk(7..33, C), o \in Off, dy \in D3, x \in {800000, 1300000, 1999999, 2000000, 2699999, 3199999}, n \in B2, p \in {0, 5, 11} :
        v' = <<"mf", 0, n, x, 0, t * Tile + o, dy, p>>
  \/ \E x \in InChunk({800000, 1300000, 2700000, 3200000, 2000000}, C), dx \in D3, y \in {800000, 1300000, 2700000, 3200000}, dy \in D3, n \in B2 :
        v' = <<"mf", 0, n, x, dx, y, dy, 11>>
  \* illegal zone / precision
  \/ C = 0 /\ \E z \in {-4, -1, 61, 100}, p \in {5} : v' = <<"mf", z, TRUE, 500000, 0, 1000000, 0, p>>
  \/ C = 0 /\ \E z \in {0, 31}, p \in {-3, -2, 12, 100} : v' = <<"mf", z, TRUE, 2000000, 0, 2000000, 0, p>>
  \* NaN coordinates: which = 1 (x), 2 (y), 3 (both); ov = 6 / 7 (overload without / with a latitude)
  \/ C = 0 /\ \E z \in {0, 31, 32}, n \in B2, w \in 1..3, ov \in {6, 7}, p \in {-1, 0, 5, 11} : v' = <<"mn", z, n, w, ov, p>>
  \* the overload with a SUPPLIED latitude (micro-degrees): every column, band edges -1/0/+1 micro-degree and
  \* band centres around the (roughly estimated) band of the point, so that consistent and inconsistent
  \* latitudes both occur for every row
  \/ \E t \in InChunk(YNt, C), x \in XCols, j \in LatOffs :
        v' = <<"mfl", 32, TRUE, x, t * Tile + 43210, LatAt(SynBand(t * Tile), j), 2>>
  \/ \E t \in InChunk(YSt, C), x \in XCols, j \in LatOffs :
        v' = <<"mfl", 32, FALSE, x, t * Tile + 43210, LatAt(SynBand((t - 100) * Tile), j), 2>>
  \/ C = 1 /\ \E la \in {-90000000, -85000000, -80000001, -80000000, -79999999, 0, 1, -1, 79999999, 80000000, 84000000, 84000001, 86000000, 90000000},
                  y \in {-8950000, -8850000, -50000, 50000, 8050000, 8850000, 9450000}, x \in {150000, 450000}, z \in {1, 31, 60}, p \in {-1, 0, 11} :
        v' = <<"mfl", z, TRUE, x, y, la, p>>
  \/ C = 2 /\ \E la \in {-4000000, 4000000, 20000000}, z \in {0, -1, 61}, n \in B2 : v' = <<"mfl", z, n, 2000000, 2000000, la, 5>>
  \/ C = 2 /\ \E la \in {4000000, 12000000}, x \in {99999, 900000, 900001}, p \in {5, 12} : v' = <<"mfl", 31, TRUE, x, 500000, la, p>>

Letters == <<65, 66, 67, 68, 69, 70, 71, 72, 74, 75, 76, 77, 78, 80, 81, 82, 83, 84, 85, 86, 87, 88, 89, 90>>
Let26 == 65..90
Zs(z) == IF z < 10 THEN <<48 + z>> ELSE <<48 + z \div 10, 48 + (z % 10)>>
Zs2(z) == <<48 + z \div 10, 48 + (z % 10)>>
dg(i) == 48 + i
Rep(c, n) == [i \in 1..n |-> c]
LowerS(s) == [i \in 1..Len(s) |-> IF s[i] >= 65 /\ s[i] <= 90 THEN s[i] + 32 ELSE s[i]]
Bad == {73, 79, 32, 0, 45, 46, 200, 47, 58, 64, 91, 96, 123}
Tails ==
  {<<>>} \cup {Rep(dg(d), 2 * n) : d \in {0, 9}, n \in {1, 2, 5, 6, 11, 12}}
  \cup {Rep(dg(d), n) : d \in {5}, n \in {1, 3, 21, 23}}
  \cup {<<dg(1), dg(2), dg(3), dg(4), dg(5), dg(6), dg(7), dg(8)>>, [i \in 1..22 |-> dg(i % 10)], [i \in 1..12 |-> dg((7 * i) % 10)]}
  \cup {<<dg(1), c>> : c \in Bad} \cup {<<c, dg(1)>> : c \in Bad} \cup {<<dg(1), dg(2), dg(3), 65>>}

VecMR(C) ==
  \* every band x column x row letter combination, for the model zones
  \/ \E b \in InChunk(1..24, C), z \in Zones, c \in 1..24, r \in 1..24 : v' = <<"mr", Zs2(z) \o <<Letters[b], Letters[c], Letters[r]>>, TRUE>>
  \* UPS: all letter triples starting with A, B, Y, Z
  \/ \E c \in InChunk(1..24, C), b \in {65, 66, 89, 90}, r \in 1..24, cp \in B2 : v' = <<"mr", <<b, Letters[c], Letters[r]>>, cp>>
  \* digits and malformed tails on a few legal blocks
  \/ C = 1 /\ \E h \in {<<51, 56, 83, 77, 66>>, <<48, 49, 67, 65, 80>>, <<54, 48, 88, 88, 70>>, <<51, 49, 78, 65, 65>>, <<89, 88, 75>>, <<65, 74, 65>>},
                 t \in Tails, cp \in B2 : v' = <<"mr", h \o t, cp>>
  \/ C = 2 /\ \E t \in Tails : v' = <<"mr", LowerS(<<51, 56, 83, 77, 66>> \o t), TRUE>>
  \* grid-zone-only strings and zone syntax
  \/ \E z \in InChunk(0..62, C), b \in 1..24 : v' = <<"mr", Zs(z) \o <<Letters[b]>>, TRUE>>
  \/ C = 3 /\ \E b \in Let26 \cup Bad, cp \in B2 : v' = <<"mr", <<b>>, cp>>
  \/ C = 4 /\ \E s \in {<<>>, <<51>>, <<51, 49>>, <<51, 49, 49, 85>>, <<48, 48, 65>>, <<48, 65>>, <<48, 48, 49, 85>>, <<32, 51, 49, 85>>, <<51, 49, 32, 85>>,
                         <<51, 49, 85, 67>>, <<51, 49, 85, 0>>, <<0, 51, 49, 85>>, <<73, 78, 86>>, <<105, 110, 118>>, <<73, 78, 86, 65, 76, 73, 68>>,
                         <<73, 78>>, <<43, 51, 49, 85>>, <<45, 49, 85>>, <<51, 49, 117>>, <<51, 49, 117, 99, 116>>, <<49, 48, 48, 48, 48, 48, 48, 48, 48, 48, 48, 48, 65>>,
                         Rep(57, 10) \o <<83>>, Rep(57, 20) \o <<83>>} : v' = <<"mr", s, TRUE>>
  \* invalid characters in the letter positions
  \/ C = 5 /\ \E c \in Bad, pos \in 3..5 : v' = <<"mr", [i \in 1..5 |-> IF i = pos THEN c ELSE <<51, 56, 83, 77, 66>>[i]], TRUE>>

Init == v = <<"root">>
Next ==
  \/ v = <<"root">> /\ \E c \in 0..(NChunks - 1) : v' = <<"chunk", c>>
  \/ /\ v[1] = "chunk"
     /\ CASE Part = "mf" -> VecMF(v[2])
          [] Part = "mr" -> VecMR(v[2])

(* ------------------------------ model invariants ------------------------- *)

FwdInv ==
  v[1] = "mf" =>
    LET z == v[2]  x == <<v[4], v[5]>>  y == <<v[6], v[7]>>  p == v[8]
        ck == Check(z # 0, v[3], x, y)
        bands == {0}
        O == Forward(z, v[3], x, y, p, bands)
        head == IF z = 0 THEN 3 ELSE 5
    IN /\ Cardinality(O) = 1
       /\ \A o \in O : o[1] = "ok" =>
            /\ Len(o[2]) = (IF p = -1 THEN head - 2 ELSE head + 2 * p)
            /\ (z # 0 => o[2][1] = 48 + z \div 10 /\ o[2][2] = 48 + (z % 10))
            /\ \A i \in 1..Len(o[2]) : IsDigit(o[2][i]) \/ Idx(Letters, o[2][i]) >= 0
            \* prefix law: one precision lower is a (per-coordinate) prefix
            /\ (p >= 0 => \E q \in Forward(z, v[3], x, y, p - 1, bands) : q[1] = "ok" /\ PrefixOK(q[2], o[2], head))
            \* the model's own decoder accepts the block letters (band replaced by none: UPS only, geometry-free)
            /\ (z = 0 /\ p >= 0 => LET r == Reverse(SynTbl, o[2], FALSE) IN r[1] = "ok" /\ r[2] = 0 /\ r[3] = ck[2] /\ r[4] = p)

RevInv ==
  v[1] = "mr" =>
    LET r == Reverse(SynTbl, v[2], v[3]) IN
    /\ r[1] \in {"ok", "throw", "nan", "zoneonly"}
    /\ Reverse(SynTbl, LowerS(v[2]), v[3]) = r
    /\ (r[1] = "ok" => Reverse(SynTbl, v[2], ~v[3])[1] = "ok")

\* the syntactic split accepts whatever the conversion accepts, and its parts concatenate to the string
DecInv ==
  v[1] = "mr" =>
    LET r == Reverse(SynTbl, v[2], v[3])  d == DecodeSyn(v[2]) IN
    /\ (r[1] # "throw" => d[1] = "ok")
    /\ (d[1] = "ok" /\ r[1] # "nan" => d[2] \o d[3] \o d[4] \o d[5] = v[2] /\ Len(d[4]) = Len(d[5]) /\ Len(d[2]) >= 1 /\ Len(d[3]) \in {0, 2})
    /\ DecodeSyn(LowerS(v[2]))[1] = d[1]

\* supplied latitude: with the synthetic geometry, the band of the point's own (synthetic) latitude is accepted
\* at the block centre and a latitude three or more bands away is refused
MflInv ==
  v[1] = "mfl" =>
    LET O == ForwardLat(SynTbl, v[2], v[3], <<v[4], 0>>, <<v[5], 0>>, v[6], v[7]) IN
    /\ O # {}
    /\ \A o \in O : o[1] \in {"ok", "throw"}
    /\ (v[2] \in 1..60 /\ v[7] = 2 /\ Check(TRUE, v[3], <<v[4], 0>>, <<v[5], 0>>) # <<"throw">> =>
          LET ck == Check(TRUE, v[3], <<v[4], 0>>, <<v[5], 0>>)
              ys == IF ck[2] THEN ck[4][1] ELSE ck[4][1] - 100 * Tile
              d == BandOfMicro(v[6]) - SynBand(ys) IN
          /\ (d >= 3 \/ d <= -3 => O = {<<"throw">>})
          /\ (v[6] = 8000000 * SynBand(ys) + 4000000 /\ SynBand(ys) \in -9..8 /\ v[4] \in {450000, 550000} => <<"throw">> \notin O))

Emit == v[1] \notin {"root", "chunk"} => PrintT(ToJson(v))
=============================================================================
