---------------------------- MODULE TraceKit ----------------------------
(* Non-blocking trace validation kit.  A trace is an ndjson file (one JSON  *)
(* record per line) named by the environment variable TRACE.  A trace spec  *)
(* consumes exactly one line per step; a line whose obligation fails is      *)
(* reported with Reject and counted in TLC register 1, and validation        *)
(* continues so that the rest of the trace is still checked.  Register 2     *)
(* holds the number of lines consumed.  Run with -workers 1.                 *)
EXTENDS Integers, Sequences, TLC, Json, IOUtils

T == ndJsonDeserialize(IOEnv.TRACE)
NT == Len(T)

KitInit == TLCSet(1, 0) /\ TLCSet(2, 0)

Reject(l, law, info) ==
  /\ PrintT(ToJson(<<"REJECT", l, law, info>>))
  /\ TLCSet(1, TLCGet(1) + 1)

Require(ok, l, law, info) == IF ok THEN TRUE ELSE Reject(l, law, info)

Consumed(l) == TLCSet(2, l)

(* POSTCONDITION: always prints the summary; the check script compares the  *)
(* consumed count with the number of lines of the file.                      *)
Summary == PrintT(<<"SUMMARY", TLCGet(2), TLCGet(1)>>)

Has(rec, f) == f \in DOMAIN rec
=============================================================================
