INIT Init
NEXT Next
CONSTANTS RO = 43 AngRO = 22
POSTCONDITION Summary
CHECK_DEADLOCK FALSE
