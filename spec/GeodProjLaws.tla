---------------------------- MODULE GeodProjLaws ----------------------------
(***************************************************************************)
(* The three projections defined by geodesics (property C17) as relations   *)
(* between an observation of the projection and observations of the          *)
(* underlying Geodesic object, written from AzimuthalEquidistant.hpp,        *)
(* Gnomonic.hpp, CassiniSoldner.hpp.                                         *)
(*                                                                          *)
(* A record carries residuals that the driver has reduced to integers:       *)
(*   lengths     nm at WGS84 scale (multiplied by 6378137 / a)               *)
(*   azimuths    1e-12 degree                                                *)
(*   scales      1e-15                                                       *)
(*   ratios      ppm (sr, rr, rx, ry, xq, yq), pole distance 1e-9 degree     *)
(* Residuals in the projected plane are converted to displacements on the    *)
(* ellipsoid with the scales the class documents (azimuthal: transverse      *)
(* scale 1/rk; gnomonic: radial scale 1/rk^2; Cassini: northing scale 1/rk). *)
(*                                                                          *)
(* TOLERANCES (all from the documentation, never from observed errors):      *)
(*  GeoErr(fi)   Geodesic.hpp: "accurate to better than 15 nm" for WGS84 and  *)
(*               the table |f| = 0.01: 25 nm, 0.02: 30 nm                     *)
(*  TolRound     "round-off" of one evaluation of a defining expression       *)
(*               (sin/cos of the azimuth, one product/quotient, the chord):   *)
(*               5 ulp of the largest coordinate, 2e7 m -> 20 nm              *)
(*  TolClose     a closure through two geodesic solutions ("will return the   *)
(*               original ... to within round-off"): 2 GeoErr + TolRound      *)
(*  TolAzi       equality of an azimuth with the azimuth the underlying       *)
(*               geodesic call returns: 1e-9 degree                           *)
(*  TolScale     equality of a reciprocal scale with m12/s12 resp. M12 of the *)
(*               underlying geodesic: 2e-14 (a few ulp of a quotient <= 1;    *)
(*               M12 error "expressed as a distance": 2e-14 * 6.4e6 m = 0.1   *)
(*               nm)                                                          *)
(***************************************************************************)
EXTENDS Integers, Sequences

CONSTANTS TolRound,      \* nm
          TolAzi,        \* 1e-12 degree
          TolScale,      \* 1e-15
          RegionMax      \* ppm of the documented region used by the reverse-then-forward laws (0.9 = 900000)

F(name, ok) == IF ok THEN <<>> ELSE <<name>>

\* ellipsoid family of the driver (index fi): 0, +-1/298.257, +-1/150, +-0.01, +-0.02
GeoErr(fi) == IF fi <= 2 THEN 15 ELSE IF fi <= 6 THEN 25 ELSE 30
TolClose(fi) == 2 * GeoErr(fi) + TolRound
Le(v, tol) == v >= 0 /\ v <= tol

(* ------------------------------------------------------------------------ *)
(* Azimuthal equidistant: "the geodesic distance from the center position is *)
(* hypot(x, y) and the azimuth of the geodesic from the center point is      *)
(* atan2(x, y)"; azi = azimuth of that geodesic at the point; rk = m12/s12    *)
(* (1 at the centre).  Reverse = Direct(centre, atan2(x,y), hypot(x,y)).      *)
(* "Reverse followed by Forward returns the original (x, y) only if the      *)
(* geodesic to (x, y) is a shortest path": region hypot <= RegionMax * pi *   *)
(* min(a, b).                                                                 *)
(* ------------------------------------------------------------------------ *)
AzFails(r) ==
  F("no-exception", r.out = "ok" /\ r.rout = "ok" /\ r.r2 = "ok")
  \o F("distance-from-centre", Le(r.dhyp, TolRound))
  \o F("azimuth-from-centre", Le(r.ddir, TolRound))
  \o F("forward-position", Le(r.dpos, TolRound))
  \o F("forward-azimuth-of-geodesic", Le(r.dazi, TolAzi))
  \o F("forward-scale-of-geodesic", Le(r.drk, TolScale))
  \o F("reverse-inverts-forward", Le(r.rt, TolClose(r.fi)) /\ r.rng)
  \o F("reverse-is-direct", Le(r.rdpos, TolRound) /\ Le(r.r2dpos, TolRound) /\ r.r2rng)
  \o F("reverse-azimuth-of-geodesic", Le(r.rdazi, TolAzi) /\ Le(r.r2dazi, TolAzi))
  \o F("reverse-scale-of-geodesic", Le(r.rdrk, TolScale) /\ Le(r.r2drk, TolScale))
  \o F("forward-inverts-reverse", r.rr <= RegionMax => Le(r.dxy, TolClose(r.fi)))

(* ------------------------------------------------------------------------ *)
(* Gnomonic: rho = m12/M12 along azi1; "if the point lies over the horizon,   *)
(* i.e., if rk <= 0, then NaNs are returned for x and y (the correct values   *)
(* are returned for azi and rk)"; rk = M12.                                   *)
(* HorizonEdgeFree: |M12| <= 1e-9 may fall on either side.                    *)
(* Reverse: "it's possible that the procedure fails to converge for very     *)
(* large x or y; in this case NaNs are returned for all the output arguments" *)
(* VeryLarge = rho > 1000 a.                                                  *)
(* ------------------------------------------------------------------------ *)
GnFails(r) ==
  LET inside == r.hz > 0  edge == r.Mq >= -1 /\ r.Mq <= 1 IN
  F("no-exception", r.out = "ok" /\ r.r2 = "ok" /\ r.rout \in {"ok", "none"})
  \o F("nan-beyond-horizon", edge \/ (IF inside THEN ~r.anynan ELSE r.nanxy))
  \o F("azimuth-scale-always-returned", ~r.aznan)
  \o F("forward-position", inside /\ ~r.anynan => Le(r.dpos, TolRound))
  \o F("forward-azimuth-of-geodesic", Le(r.dazi, TolAzi))
  \o F("forward-scale-of-geodesic", Le(r.drk, TolScale))
  \o F("reverse-inverts-forward",
       inside /\ ~r.anynan => /\ r.rout = "ok" /\ r.rng
                              /\ IF r.rtnan THEN r.Mq < 1000000 ELSE Le(r.rt, TolClose(r.fi)))
  \o F("reverse-nan-only-very-large", r.r2nan => r.r2allnan /\ r.rr > 1000000)
  \o F("reverse-along-azimuth", ~r.r2nan => Le(r.r2dir, TolClose(r.fi)) /\ r.r2rng)
  \o F("reverse-azimuth-of-geodesic", ~r.r2nan => Le(r.r2dazi, TolClose(r.fi)))
  \o F("reverse-scale-of-geodesic", ~r.r2nan => Le(r.r2drk, TolScale))
  \o F("forward-inverts-reverse", ~r.r2nan => Le(r.dxy, TolClose(r.fi)))

(* ------------------------------------------------------------------------ *)
(* Cassini-Soldner: "Go north along a geodesic a distance y from the central  *)
(* point; then turn clockwise 90 degrees and go a distance x along a          *)
(* geodesic" (dend: that construction reaches the point); x = geodesic        *)
(* distance to the foot, perpendicular to the meridian there (dx, dperp);     *)
(* y = meridian distance of the foot from the origin, by                      *)
(* Ellipsoid::MeridianDistance (dy); azi, rk = azimuth of the easting          *)
(* direction and M12 of that perpendicular geodesic at the point.             *)
(* "provided that x and y are sufficiently small not to wrap around":         *)
(* |x| <= RegionMax * quarter meridian.                                       *)
(* ------------------------------------------------------------------------ *)
CsFails(r) ==
  F("no-exception", r.out = "ok" /\ r.rout = "ok" /\ r.r2 = "ok" /\ r.init /\ r.org)
  \o F("construction-reaches-point", Le(r.dend, TolClose(r.fi)))
  \o F("x-is-distance-to-meridian", Le(r.dx, TolClose(r.fi)))
  \o F("foot-perpendicular", Le(r.dperp, TolClose(r.fi)))
  \o F("y-is-meridian-distance-of-foot", Le(r.dy, TolClose(r.fi)) /\ r.yrng)
  \o F("forward-azimuth-of-geodesic", Le(r.dazi, TolClose(r.fi)))
  \o F("forward-scale-of-geodesic", Le(r.drk, TolScale))
  \o F("reverse-inverts-forward", Le(r.rt, TolClose(r.fi)) /\ r.rng)
  \o F("reverse-is-construction", Le(r.r2dpos, TolRound) /\ r.r2rng)
  \o F("reverse-azimuth-of-geodesic", Le(r.r2dazi, TolAzi))
  \o F("reverse-scale-of-geodesic", Le(r.r2drk, TolScale))
  \o F("forward-inverts-reverse", r.rx <= RegionMax => Le(r.dxy, TolClose(r.fi)))
=============================================================================
