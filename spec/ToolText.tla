------------------------------- MODULE ToolText -------------------------------
(***************************************************************************)
(* What the other line-oriented tools owe for one input line (property C10, *)
(* last sentence), written from their man pages (RhumbSolve.pod,             *)
(* TransverseMercatorProj.pod, ConicProj.pod, GeodesicProj.pod,              *)
(* CartConvert.pod, IntersectTool.pod, Planimeter.pod):                      *)
(*  - DESCRIPTION / OPTIONS: what a line contains for each mode (a sequence  *)
(*    of fields: a latitude/longitude pair decoded as GeoConvert(1) does,    *)
(*    an azimuth, a plain real number) and what is printed for it;           *)
(*  - -p: the number of digits after the decimal point of every output item; *)
(*  - --comment-delimiter: the delimiter and the rest of the line are        *)
(*    removed prior to processing and appended to the output line            *)
(*    (separated by a space);                                                *)
(*  - ERRORS: an illegal line gives a line beginning with ERROR: and the     *)
(*    exit status 1, the following lines are still converted.                *)
(* Class of a line: "bad" (must give ERROR:), "good" (must not), "any"       *)
(* (the man pages do not settle it: blank lines, nan / inf, the rules left   *)
(* open in DMS.tla).  Constant level.                                        *)
(*                                                                           *)
(* cfg (the Reset record of a run): tool, mode, proj (projection option      *)
(* letter), prec (-p), w (-w), cd (comment delimiter byte, 0 = none), dms    *)
(* (0, 100 = -d, 58 = -:), c1 c2 (centre / standard parallels, whole         *)
(* degrees), l0 (-l lon0, whole degrees), rt (the run is the second half of  *)
(* a round trip), fprec (-p of the first half).                              *)
(***************************************************************************)
EXTENDS LineText

ProjTools == {"TransverseMercatorProj", "ConicProj", "GeodesicProj"}
NewTools == ProjTools \cup {"RhumbSolve", "CartConvert", "IntersectTool", "Planimeter"}

\* the fields of an input line
Fmt(c) ==
  CASE c.tool = "RhumbSolve" -> IF c.mode = "inv" THEN <<"ll", "ll">> ELSE IF c.mode = "line" THEN <<"num">> ELSE <<"ll", "az", "num">>   \* lat1 lon1 lat2 lon2 / s12 (-L lat1 lon1 azi12) / lat1 lon1 azi12 s12
    [] c.tool \in ProjTools -> IF c.mode = "rev" THEN <<"num", "num">> ELSE <<"ll">>                  \* x y / latitude longitude
    [] c.tool = "CartConvert" -> IF c.mode = "rev" THEN <<"num", "num", "num">> ELSE <<"ll", "num">>  \* x y z / latitude longitude height
    [] c.tool = "IntersectTool" ->
        (CASE c.mode = "c" -> <<"ll", "az", "ll", "az">>                                              \* latX lonX aziX latY lonY aziY
           [] c.mode = "n" -> <<"ll", "az", "az">>                                                    \* latX lonX aziX aziY
           [] c.mode = "i" -> <<"ll", "ll", "ll", "ll">>                                              \* X1 X2 Y1 Y2
           [] OTHER -> <<"ll", "az", "ll", "az", "num", "num">>)                                      \* "o": ... x0 y0
    [] c.tool = "Planimeter" -> <<"ll">>                                                              \* a vertex
KnownCfg(c) ==
  /\ c.tool \in NewTools
  /\ c.mode \in (CASE c.tool = "RhumbSolve" -> {"dir", "inv", "line"} [] c.tool = "IntersectTool" -> {"c", "n", "i", "o"}
                   [] c.tool = "Planimeter" -> {"poly", "line"} [] OTHER -> {"fwd", "rev"})
  /\ c.prec >= 0 /\ c.prec <= 9 /\ c.cd \in {0, 35} /\ c.dms \in {0, 100, 58} /\ c.w \in BOOLEAN /\ c.rt \in BOOLEAN

FWidth(k) == IF k = "ll" THEN 2 ELSE 1
RECURSIVE NTokF(_, _)
NTokF(fmt, i) == IF i > Len(fmt) THEN 0 ELSE FWidth(fmt[i]) + NTokF(fmt, i + 1)
NTok(c) == NTokF(Fmt(c), 1)

\* --comment-delimiter: Body (the part that is processed), Comment (the part that is appended to the output) and
\* OutBody are defined in LineText (GeoConvert and GeodSolve have the option too)

Worst(a, b) == IF a = "bad" \/ b = "bad" THEN "bad" ELSE IF a = "any" \/ b = "any" THEN "any" ELSE "good"
\* a latitude/longitude pair (GEOGRAPHIC COORDINATES of GeoConvert(1)); nan, inf: not mentioned by the man pages
LLClass(a, b, w) ==
  LET r == DecodeLatLon(a, b, w) IN
  IF r[1] = "throw" THEN "bad"
  ELSE IF r[1] = "edge" \/ r[2][1] # "fin" \/ r[3][1] # "fin" THEN "any"
  ELSE IF r[2][9] \/ r[3][9] \/ r[2][6] \/ r[3][6] THEN "any"            \* rule MixedSeparators; more than 8 digits of degrees
  ELSE "good"
\* an azimuth: "measured clockwise from north; however this may be overridden with E or W"
AzClass(t) ==
  LET r == DecodeAzimuth(t)  d == Decode(t) IN
  IF r[1] = "throw" THEN "bad"
  ELSE IF r[1] # "az" \/ d[1] # "fin" \/ d[9] \/ d[6] THEN "any"
  ELSE "good"
\* a length in metres: a real number
NumClass(t) ==
  LET r == Val(t) IN
  IF r[1] = "throw" THEN "bad"
  ELSE IF r[1] # "num" \/ ~r[5] \/ r[4] > 200 \/ r[4] < -200 THEN "any"   \* nan, inf, beyond the modelled range
  ELSE "good"

RECURSIVE FieldsClass(_, _, _, _, _)
FieldsClass(fmt, i, tk, j, w) ==
  IF i > Len(fmt) THEN "good"
  ELSE LET k == fmt[i]
           c == CASE k = "ll" -> LLClass(tk[j], tk[j + 1], w) [] k = "az" -> AzClass(tk[j]) [] OTHER -> NumClass(tk[j])
       IN Worst(c, FieldsClass(fmt, i + 1, tk, j + FWidth(k), w))

\* a line containing anything but the documented items is illegal; a line containing nothing is not described
TLLine(c, s) ==
  LET tk == WTokens(Body(c, s)) IN
  IF Len(tk) = 0 THEN "any"
  ELSE IF Len(tk) # NTok(c) THEN "bad"
  ELSE FieldsClass(Fmt(c), 1, tk, 1, c.w)

(* Planimeter: "The end of input, a blank line, or a line which can't be interpreted as a vertex signals the end *)
(* of one polygon and the start of the next."  Kind of a line: "good" a vertex, "bad" a terminator, "any".       *)
PolyLine(c, s) ==
  LET tk == WTokens(Body(c, s)) IN
  IF Len(tk) = 0 THEN "bad"
  ELSE IF Len(tk) # 2 THEN "bad"
  ELSE LLClass(tk[1], tk[2], c.w)
LineKind(c, s) == IF c.tool = "Planimeter" THEN PolyLine(c, s) ELSE TLLine(c, s)

(* ------------------------------ output items ------------------------------ *)
DotPos(t) == FirstPos(t, LAMBDA x : x = 46)
DigitsAfter(t) == LET p == DotPos(t) IN IF p = 0 THEN 0 ELSE Len(t) - p
FixedChars(t) == \A i \in 1..Len(t) : IsDigit(t[i]) \/ t[i] = 46 \/ (t[i] = 45 /\ i = 1)
\* a number printed with d digits after the decimal point (or nan / inf)
IsFixed(t, d) == LET r == Val(t) IN \/ r[1] = "sp"
                                    \/ r[1] = "num" /\ FixedChars(t) /\ DigitsAfter(t) = d /\ (d = 0 => DotPos(t) = 0)
IsNumber(t) == Val(t)[1] # "throw"
IsIntIn(t, lo, hi) == LET r == Val(t) IN /\ r[1] = "num" /\ FixedChars(t) /\ DotPos(t) = 0 /\ r[5]
                                         /\ LET x == IF r[2] THEN -(r[3] * Pow10(r[4])) ELSE r[3] * Pow10(r[4]) IN r[4] <= 2 /\ x >= lo /\ x <= hi
\* an angle printed in decimal degrees with d digits or (dms # 0) as degrees, minutes and seconds
IsAngle(c, t, d) ==
  IF c.dms = 0 THEN IsFixed(t, d)
  ELSE /\ Decode(t)[1] # "throw"
       /\ (c.dms = 58 => \A i \in 1..Len(t) : t[i] \notin {100, 39, 34})
\* kinds of items: <<"fix", d>>, <<"ang", d>>, <<"num">>, <<"int", lo, hi>>
ItemOK(c, t, k) ==
  CASE k[1] = "fix" -> IsFixed(t, k[2])
    [] k[1] = "ang" -> IsAngle(c, t, k[2])
    [] k[1] = "int" -> IsIntIn(t, k[2], k[3])
    [] OTHER -> IsNumber(t)
\* the output line of a legal input line, per tool and mode (sections DESCRIPTION, -p and PRECISION)
OutFmt(c) ==
  LET p == c.prec IN
  CASE c.tool = "RhumbSolve" ->
         IF c.mode = "inv" THEN << <<"ang", p + 5>>, <<"fix", p>>, <<"num">> >>                        \* azi12 s12 S12
         ELSE << <<"ang", p + 5>>, <<"ang", p + 5>>, <<"num">> >>                                      \* lat2 lon2 S12
    [] c.tool \in {"TransverseMercatorProj", "ConicProj"} ->
         IF c.mode = "rev" THEN << <<"fix", p + 5>>, <<"fix", p + 5>>, <<"fix", p + 6>>, <<"fix", p + 6>> >>   \* latitude longitude gamma k
         ELSE << <<"fix", p>>, <<"fix", p>>, <<"fix", p + 6>>, <<"fix", p + 6>> >>                     \* x y gamma k
    [] c.tool = "GeodesicProj" ->
         IF c.mode = "rev" THEN << <<"fix", p + 5>>, <<"fix", p + 5>>, <<"fix", p + 5>>, <<"fix", p + 6>> >>   \* latitude longitude azi rk
         ELSE << <<"fix", p>>, <<"fix", p>>, <<"fix", p + 5>>, <<"fix", p + 6>> >>                     \* x y azi rk
    [] c.tool = "CartConvert" ->
         IF c.mode = "rev" THEN << <<"fix", p + 5>>, <<"fix", p + 5>>, <<"fix", p>> >>                 \* latitude longitude height
         ELSE << <<"fix", p>>, <<"fix", p>>, <<"fix", p>> >>                                           \* x y z
    [] c.tool = "IntersectTool" ->
         IF c.mode = "i" THEN << <<"fix", p>>, <<"fix", p>>, <<"int", -1, 1>>, <<"int", -4, 4>> >>     \* x y c k
         ELSE << <<"fix", p>>, <<"fix", p>>, <<"int", -1, 1>> >>                                       \* x y c
ItemsOK(c, ot, fmt) == Len(ot) = Len(fmt) /\ \A i \in 1..Len(fmt) : ItemOK(c, ot[i], fmt[i])

IsZeroTok(t) == LET r == Val(t) IN r[1] = "num" /\ r[3] = 0
SamePos(a, b) == a[1] = "ok" /\ b[1] = "ok" /\ a[2] = b[2] /\ Reduce180(a[3]) = Reduce180(b[3])
SignedDeg(neg, D) == IF neg THEN -D ELSE D
\* special cases that the definitions settle exactly
ExactCase(c, tk, ot) ==
  CASE c.tool = "RhumbSolve" /\ c.mode = "dir" ->
         \* a rhumb line of zero length ends where it starts
         LET a == DecodeLatLon(tk[1], tk[2], c.w)  ds == Val(tk[4])
             pe == c.prec + 5  dms == c.dms # 0 IN
         (ds[3] = 0 /\ a[2][3] < 89) => LLClose(a[2], Reduce180(a[3]), ot[1], ot[2], c.w, pe, dms)
    [] c.tool = "RhumbSolve" /\ c.mode = "line" ->
         \* -L lat1 lon1 azi12 (here the whole degrees c1, c2): the point at distance zero is the starting point
         LET a == DecodeLatLon(DigitsOf(c.c1), DigitsOf(c.c2), FALSE)  ds == Val(tk[1]) IN
         ds[3] = 0 => LLClose(a[2], Reduce180(a[3]), ot[1], ot[2], c.w, c.prec + 5, c.dms # 0)
    [] c.tool = "IntersectTool" /\ c.mode = "c" ->
         \* two different geodesics through one point: the closest intersection (|x| + |y| minimal) is that point
         LET a == DecodeLatLon(tk[1], tk[2], c.w)  b == DecodeLatLon(tk[4], tk[5], c.w)
             za == DecodeAzimuth(tk[3])  zb == DecodeAzimuth(tk[6]) IN
         \* (guard: whole degrees, the azimuths neither equal nor opposite, not at a pole)
         (SamePos(a, b) /\ a[2][5] /\ a[2][3] < 89 /\ za[5] /\ zb[5] /\ za[4] = 0 /\ zb[4] = 0
            /\ (SignedDeg(za[2], za[3]) - SignedDeg(zb[2], zb[3]) + 360) % 180 # 0)
           => IsZeroTok(ot[1]) /\ IsZeroTok(ot[2]) /\ IsZeroTok(ot[3])
    [] OTHER -> TRUE

\* content of the output line of a "good" line
TLContent(c, s, out) ==
  LET ob == OutBody(c, s, out)  ot == WTokens(ob[2])  tk == WTokens(Body(c, s)) IN
  /\ ob[1]                                                    \* the comment is appended, separated by a space
  /\ ItemsOK(c, ot, OutFmt(c))
  /\ ExactCase(c, tk, ot)

(* ------------------------------ round trips ------------------------------- *)
(* A reverse run (-r, -p prec) whose input lines are the leading items of the output lines of a forward run    *)
(* (-p fprec, fprec - prec >= 6) on the lines src: "each line of standard output gives latitude, longitude..." *)
(* of the point with these projected coordinates, so the output is src's position to within half a unit of    *)
(* the last printed digit (the forward coordinates carry 6 more digits than the result needs, which is less   *)
(* than the resolution of the exact text arithmetic; the tie itself goes either way).  Guard: the point is    *)
(* within 30 degrees of the centre of the projection (c1, c2), where every projection here is regular.       *)
Near(x, c0, span) == x - c0 <= span /\ c0 - x <= span
FwdCfg(c) == [c EXCEPT !.mode = "fwd", !.prec = c.fprec, !.rt = FALSE]
RTGuard(c, a) ==
  LET lon == Reduce180(a[3]) IN
  /\ a[1] = "ok" /\ a[2][5] /\ lon[5] /\ ~lon[7]
  /\ a[2][3] < 80
  /\ CASE c.tool = "CartConvert" -> TRUE
       [] c.tool = "TransverseMercatorProj" -> Near(SignedDeg(lon[2], lon[3]), c.l0, 29)
       [] c.tool = "ConicProj" -> Near(SignedDeg(a[2][2], a[2][3]), (c.c1 + c.c2) \div 2, 29) /\ Near(SignedDeg(lon[2], lon[3]), c.l0, 29)
       [] c.tool = "GeodesicProj" -> Near(SignedDeg(a[2][2], a[2][3]), c.c1, 29) /\ Near(SignedDeg(lon[2], lon[3]), c.c2, 29)
HalfMetre(p) == 5 * Pow10(8 - p)                              \* nm
RTInput(c, inp, fout) ==
  LET ft == WTokens(fout)  n == NTok(c) IN
  WTokens(inp) = SubSeq(ft, 1, IF Len(ft) < n THEN Len(ft) ELSE n)
RTBack(c, src, out) ==
  LET f == FwdCfg(c)  tk == WTokens(Body(f, src)) IN
  (TLLine(f, src) = "good" /\ RTGuard(c, DecodeLatLon(tk[1], tk[2], c.w))) =>
    LET a == DecodeLatLon(tk[1], tk[2], c.w)  ot == WTokens(out) IN
    /\ ~IsError(out) /\ Len(ot) >= 2
    /\ LLClose(a[2], Reduce180(a[3]), ot[1], ot[2], c.w, c.prec + 5, FALSE)
    /\ (c.tool = "CartConvert" /\ c.prec <= 8) =>
         LET h == NmLimbs(Val(tk[3]))  g == IF Len(ot) >= 3 /\ Val(ot[3])[1] = "num" THEN NmLimbs(Val(ot[3])) ELSE <<>> IN
         (Len(h) = 2 /\ h[1] < 1000000 /\ h[1] > -1000000) => Len(g) = 2 /\ NmDiffLE(g, h, HalfMetre(c.prec))

(* ------------------------------ Planimeter -------------------------------- *)
(* "For each polygon print a summary line with the number of points, the perimeter (in meters), and the area";  *)
(* -l: "the number of points and the length of the path"; -p: perimeter with prec digits, area with prec - 5.   *)
PolyOutOK(c, out) ==
  LET ot == WTokens(Body(c, out)) IN
  /\ Len(ot) = (IF c.mode = "line" THEN 2 ELSE 3)
  /\ IsIntIn(ot[1], 0, 99999)
  /\ IsFixed(ot[2], c.prec)
  /\ c.mode # "line" => IF c.prec >= 5 THEN IsFixed(ot[3], c.prec - 5) ELSE IsNumber(ot[3])
PolyCount(c, out) == LET ot == WTokens(Body(c, out)) r == Val(ot[1]) IN r[3] * Pow10(r[4])
=============================================================================
