------------------------------ MODULE MC_LineTool ------------------------------
(* All good/bad line sequences up to MaxLines; every reachable state is emitted with the history that reaches it.   *)
EXTENDS LineTool, TLC, Json

CONSTANT MaxLines
VARIABLE hist

Init == LInit /\ hist = <<>>
Next == /\ Len(hist) < MaxLines
        /\ \E bad \in BOOLEAN : Line(bad) /\ hist' = Append(hist, bad)

\* one output line per input line; the status is 1 exactly when some line was bad (and stays 1)
ProtoInv == /\ nout = nin /\ nin = Len(hist)
            /\ (status = 1) = (\E i \in 1..Len(hist) : hist[i])
            /\ status \in {0, 1}
Emit == PrintT(ToJson(<<"seq", hist, status>>))
=============================================================================
