------------------------------ MODULE MC_LineTool ------------------------------
(* All good/bad line sequences up to MaxLines; every reachable state is emitted with the history that reaches it.   *)
(* Kind = "line": the ERROR protocol; Kind = "poly": the polygon protocol of Planimeter (bad = a terminator line).  *)
EXTENDS LineTool, TLC, Json

CONSTANT MaxLines, Kind
VARIABLE hist

Init == LInit /\ hist = <<>>
Next == /\ Len(hist) < MaxLines
        /\ \E bad \in BOOLEAN : (IF Kind = "poly" THEN PLine(bad) ELSE Line(bad)) /\ hist' = Append(hist, bad)

\* one output line per input line; the status is 1 exactly when some line was bad (and stays 1)
ProtoInv == Kind = "line" =>
            /\ nout = nin /\ nin = Len(hist)
            /\ (status = 1) = (\E i \in 1..Len(hist) : hist[i])
            /\ status \in {0, 1}
\* one count per maximal run of vertex lines, equal to its length
RECURSIVE SumSeq(_, _)
SumSeq(s, i) == IF i > Len(s) THEN 0 ELSE s[i] + SumSeq(s, i + 1)
RunStarts == {i \in 1..Len(hist) : ~hist[i] /\ (i = 1 \/ hist[i - 1])}
PolyInv == Kind = "poly" =>
           /\ nin = Len(hist) /\ nout = 0 /\ status = 0
           /\ Len(PCounts) = Cardinality(RunStarts)
           /\ SumSeq(PCounts, 1) = Cardinality({i \in 1..Len(hist) : ~hist[i]})
           /\ \A k \in 1..Len(PCounts) : PCounts[k] >= 1
           /\ pcur = (IF hist = <<>> \/ hist[Len(hist)] THEN 0
                      ELSE Len(hist) - (CHOOSE i \in RunStarts : \A j \in RunStarts : j <= i) + 1)
Emit == PrintT(ToJson(IF Kind = "poly" THEN <<"pseq", hist, PCounts>> ELSE <<"seq", hist, status>>))
=============================================================================
