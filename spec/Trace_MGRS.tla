---------------------------- MODULE Trace_MGRS ----------------------------
(* Validates observations of MGRS (C05).  Line 1 of every trace is a header  *)
(* carrying the corner latitudes of the 100 km UTM grid obtained from the     *)
(* real inverse projection (the geometry against which the hand-coded band    *)
(* table of the implementation is judged).                                     *)
EXTENDS MGRS, TraceKit

VARIABLE l
Tbl == T[1].tbl

Band5nm == 45      \* 5 nm in units of 1e-15 degree
\* admissible band indices for an observed point
Bands(r, northp) ==
  LET S == IF r.dedge <= Band5nm THEN {r.band, r.nb} ELSE {r.band}
      H == {b \in S : (b >= 0) = northp}
  IN IF H = {} THEN S ELSE H

MfOK(r) ==
  LET utmp == r.z # 0
      ck == Check(utmp, r.n, r.x, r.y)
      np == IF ck = <<"throw">> THEN r.n ELSE ck[2]
      O == Forward(r.z, r.n, r.x, r.y, r.p, IF utmp /\ r.lok THEN Bands(r, np) ELSE {0})
      \* FoldRoundOff: a northern-hemisphere northing y <= 0 perturbed one ulp downwards is folded by
      \* adding 10^7 m, which absorbs the perturbation (and at y = 0 the ulp is a denormal): within
      \* round-off the unperturbed lattice value (the adjacent cell) is admissible too.
      O0 == IF utmp /\ r.n /\ r.y[1] <= 0 /\ r.y[2] = -1
            THEN Forward(r.z, r.n, r.x, <<r.y[1], 0>>, r.p, IF r.lok THEN Bands(r, r.y[1] = 0) ELSE {0}) ELSE {}
  IN IF r.z = -4 THEN r.out = "ok" /\ r.code = <<73, 78, 86, 65, 76, 73, 68>>
     ELSE IF <<"throw">> \in O THEN r.out = "throw" /\ r.untouched
     ELSE r.out = "ok" /\ <<"ok", r.code>> \in (O \cup O0) /\ (utmp => r.lok)

\* grid-zone-only results: a point inside that grid zone
ZoneOnlyOK(r, x) ==
  /\ r.out = "ok" /\ r.p = -1 /\ r.zone = x[2] /\ r.northp = x[3]
  /\ IF x[2] = 0 THEN (IF x[3] THEN r.latq >= 84000000 ELSE r.latq < -80000000)
     ELSE /\ r.zb = x[4] - 10
          /\ r.dl >= 0 /\ r.dl < 3000000

MrOK(r) ==
  LET x == Reverse(Tbl, r.code, r.c) IN
  CASE x[1] = "throw" -> r.out = "throw" /\ r.untouched
    [] x[1] = "nan" -> r.out = "nan" /\ r.zone = -4 /\ r.p = -2
    [] x[1] = "zoneonly" -> ZoneOnlyOK(r, x)
    [] x[1] = "ok" -> r.out = "ok" /\ r.grid /\ r.zone = x[2] /\ r.northp = x[3] /\ r.p = x[4] /\ r.x = x[5] /\ r.y = x[6]

Tol == 4    \* nm
MrtOK(r) ==
  LET head == IF r.z = 0 THEN 3 ELSE 5 IN
  /\ r.out = "ok" /\ r.dout = "ok"
  /\ r.z2 = r.z /\ r.p2 = r.p
  /\ Len(r.code) = (IF r.p = -1 THEN head - 2 ELSE head + 2 * r.p)
  /\ \A i \in 1..Len(r.lower) : PrefixOK(r.lower[i], r.code, head)
  /\ (r.p >= 0 =>
        /\ r.rout = "ok"
        \* re-encoding the centre reproduces the string apart from the band letter
        /\ Len(r.recode) = Len(r.code)
        /\ \A i \in 1..Len(r.code) : i = head - 2 \/ r.recode[i] = r.code[i]
        /\ r.ex[1] <= Tol /\ r.ex[2] <= Tol /\ r.exsw[1] <= Tol /\ r.exsw[2] <= Tol)
  \* band letter of the string is the band of the point's latitude (neighbour only within 5 nm)
  /\ (r.z > 0 /\ r.lok => \E b \in Bands(r, r.n2) : r.code[3] = LatBands[b + 11])
  /\ (r.z > 0 => r.n2 = r.n \/ r.dedge <= Band5nm)      \* hemisphere preserved (equator edge excepted)
  /\ (r.z = 0 => r.n2 = r.n)
  /\ r.lateq /\ r.caseeq
  /\ LET y == Reverse(Tbl, r.code, TRUE) IN y[1] \in {"ok", "zoneonly"}

MnanOK(r) == r.out = "ok" /\ UpperS(r.code) = <<73, 78, 86, 65, 76, 73, 68>> /\ r.dout = "ok" /\ r.isnan /\ r.z2 = -4 /\ r.p2 = -2

Obligation(r) ==
  CASE r.e = "hdr" -> Len(r.tbl) = 5 /\ Len(r.tbl[1]) = 97
    [] r.e = "mf" -> MfOK(r) [] r.e = "mr" -> MrOK(r) [] r.e = "mrt" -> MrtOK(r) [] r.e = "mnan" -> MnanOK(r)
    [] OTHER -> FALSE

Expected(r) ==
  CASE r.e = "mf" -> Forward(r.z, r.n, r.x, r.y, r.p, IF r.z # 0 /\ r.lok THEN {r.band, r.nb} ELSE {0})
    [] r.e = "mr" -> Reverse(Tbl, r.code, r.c)
    [] OTHER -> <<>>

Init == l = 1 /\ KitInit
Next == /\ l <= NT
        /\ Require(Obligation(T[l]), l, "mgrs-" \o T[l].e, Expected(T[l]))
        /\ Consumed(l)
        /\ l' = l + 1
=============================================================================
