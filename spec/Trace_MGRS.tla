---------------------------- MODULE Trace_MGRS ----------------------------
(* Validates observations of MGRS (C05).  Line 1 of every trace is a header  *)
(* carrying the corner latitudes of the 100 km UTM grid obtained from the     *)
(* real inverse projection (the geometry against which the hand-coded band    *)
(* table of the implementation is judged).                                     *)
EXTENDS MGRS, TraceKit

VARIABLE l
Tbl == T[1].tbl

Band5nm == 45      \* 5 nm in units of 1e-15 degree
\* admissible band indices for an observed point
Bands(r, northp) ==
  LET S == IF r.dedge <= Band5nm THEN {r.band, r.nb} ELSE {r.band}
      H == {b \in S : (b >= 0) = northp}
  IN IF H = {} THEN S ELSE H

MfOK(r) ==
  LET utmp == r.z # 0
      ck == Check(utmp, r.n, r.x, r.y)
      np == IF ck = <<"throw">> THEN r.n ELSE ck[2]
      O == Forward(r.z, r.n, r.x, r.y, r.p, IF utmp /\ r.lok THEN Bands(r, np) ELSE {0})
      \* FoldRoundOff: a northern-hemisphere northing y <= 0 perturbed one ulp downwards is folded by
      \* adding 10^7 m, which absorbs the perturbation (and at y = 0 the ulp is a denormal): within
      \* round-off the unperturbed lattice value (the adjacent cell) is admissible too.
      O0 == IF utmp /\ r.n /\ r.y[1] <= 0 /\ r.y[2] = -1
            THEN Forward(r.z, r.n, r.x, <<r.y[1], 0>>, r.p, IF r.lok THEN Bands(r, r.y[1] = 0) ELSE {0}) ELSE {}
  IN IF r.z = -4 THEN r.out = "ok" /\ r.code = <<73, 78, 86, 65, 76, 73, 68>>
     ELSE IF <<"throw">> \in O THEN r.out = "throw" /\ r.untouched
     ELSE r.out = "ok" /\ <<"ok", r.code>> \in (O \cup O0) /\ (utmp => r.lok)

\* grid-zone-only results: a point inside that grid zone
ZoneOnlyOK(r, x) ==
  /\ r.out = "ok" /\ r.p = -1 /\ r.zone = x[2] /\ r.northp = x[3]
  /\ IF x[2] = 0 THEN (IF x[3] THEN r.latq >= 84000000 ELSE r.latq < -80000000)
     ELSE /\ r.zb = x[4] - 10
          /\ r.dl >= 0 /\ r.dl < 3000000
  \* ... in longitude too: the grid zone's own interval (Norway / Svalbard exceptions), where the standard has that grid zone
  /\ (x[2] > 0 => LET I == GridZoneLon(x[2], x[4])
                       lon == IF r.lonq = 180000000 THEN -180000000 ELSE r.lonq
                   IN I = <<0, 0>> \/ (lon >= 1000000 * I[1] /\ lon < 1000000 * I[2]))
  \* ... and it is named by the forward conversion: the grid zone designation of the returned point (prec = -1) is the
  \* string itself (zone padded to two digits); for UPS this is the half A/B, Y/Z (west / east of the 0-180 meridian)
  /\ r.grid
  /\ LET X == HalfUmMetres(r.x)  Y == HalfUmMetres(r.y)
         gzd == IF x[2] = 0 THEN <<UPSBands[x[4] + 1]>> ELSE <<48 + x[2] \div 10, 48 + (x[2] % 10), LatBands[x[4] + 1]>>
     IN X[2] /\ Y[2] /\ Forward(x[2], x[3], <<X[1], 0>>, <<Y[1], 0>>, -1, {r.zb}) = {<<"ok", gzd>>}

MrOKx(r, x) ==
  CASE x[1] = "throw" -> r.out = "throw" /\ r.untouched
    [] x[1] = "nan" -> r.out = "nan" /\ r.zone = -4 /\ r.p = -2
    [] x[1] = "zoneonly" -> ZoneOnlyOK(r, x)
    [] x[1] = "ok" -> r.out = "ok" /\ r.grid /\ r.zone = x[2] /\ r.northp = x[3] /\ r.p = x[4] /\ r.x = x[5] /\ r.y = x[6]

\* the six-argument call of Reverse (centerp defaulted; documented default TRUE = centre of the square)
MrDefOKx(r, x) ==
  LET o == r.def IN
  CASE x[1] = "throw" -> o.out = "throw" /\ o.untouched
    [] x[1] = "nan" -> o.out = "nan" /\ o.zone = -4 /\ o.p = -2
    [] x[1] = "zoneonly" -> o.out = "ok" /\ o.p = -1 /\ o.zone = x[2] /\ o.northp = x[3] /\ o.x = r.x /\ o.y = r.y   \* centerp ignored
    [] x[1] = "ok" -> o.out = "ok" /\ o.grid /\ o.zone = x[2] /\ o.northp = x[3] /\ o.p = x[4] /\ o.x = x[5] /\ o.y = x[6]

MrDefOK(r) == MrDefOKx(r, Reverse(Tbl, r.code, TRUE))

\* MGRS::Decode: the documented syntactic split; a failing call leaves its outputs unchanged
DecOK(r) ==
  LET o == r.dec
      d == DecodeSyn(r.code) IN
  IF d[1] = "throw" THEN o.out = "throw" /\ o.untouched
  ELSE o.out = "ok" /\ o.gz = d[2] /\ o.blk = d[3] /\ o.e = d[4] /\ o.n = d[5]

\* the overload with a supplied latitude
MflOK(r) ==
  LET O == ForwardLat(Tbl, r.z, r.n, r.x, r.y, r.la, r.p) IN
  IF r.out = "throw" THEN <<"throw">> \in O /\ r.untouched
  ELSE r.out = "ok" /\ <<"ok", r.code>> \in O

MrOK(r) == MrOKx(r, Reverse(Tbl, r.code, r.c))
\* all three obligations of an "mr" line, the model evaluated once when centerp = TRUE was requested
MrAllOK(r) ==
  LET x == Reverse(Tbl, r.code, r.c)
      xd == IF r.c THEN x ELSE Reverse(Tbl, r.code, TRUE)
  IN MrOKx(r, x) /\ MrDefOKx(r, xd) /\ DecOK(r)

Tol == 4    \* nm
MrtOK(r) ==
  LET head == IF r.z = 0 THEN 3 ELSE 5 IN
  /\ r.out = "ok" /\ r.dout = "ok"
  /\ r.z2 = r.z /\ r.p2 = r.p
  /\ Len(r.code) = (IF r.p = -1 THEN head - 2 ELSE head + 2 * r.p)
  /\ \A i \in 1..Len(r.lower) : PrefixOK(r.lower[i], r.code, head)
  /\ (r.p >= 0 =>
        /\ r.rout = "ok"
        \* re-encoding the centre reproduces the string apart from the band letter
        /\ Len(r.recode) = Len(r.code)
        /\ \A i \in 1..Len(r.code) : i = head - 2 \/ r.recode[i] = r.code[i]
        /\ r.ex[1] <= Tol /\ r.ex[2] <= Tol /\ r.exsw[1] <= Tol /\ r.exsw[2] <= Tol)
  \* band letter of the string is the band of the point's latitude (neighbour only within 5 nm)
  /\ (r.z > 0 /\ r.lok => \E b \in Bands(r, r.n2) : r.code[3] = LatBands[b + 11])
  /\ (r.z > 0 => r.n2 = r.n \/ r.dedge <= Band5nm)      \* hemisphere preserved (equator edge excepted)
  /\ (r.z = 0 => r.n2 = r.n)
  /\ r.lateq /\ r.caseeq
  \* the default of centerp is the centre: same zone / hemisphere / precision, and the point within half a cell
  /\ r.d6out = "ok" /\ r.z6 = r.z2 /\ r.n6 = r.n2 /\ r.p6 = r.p2
  /\ (r.p >= 0 => r.exd[1] <= Tol /\ r.exd[2] <= Tol)
  /\ LET y == Reverse(Tbl, r.code, TRUE) IN y[1] \in {"ok", "zoneonly"}

MnanOK(r) == r.out = "ok" /\ UpperS(r.code) = <<73, 78, 86, 65, 76, 73, 68>> /\ r.dout = "ok" /\ r.isnan /\ r.z2 = -4 /\ r.p2 = -2

Obligation(r) ==
  CASE r.e = "hdr" -> Len(r.tbl) = 5 /\ Len(r.tbl[1]) = 97
    [] r.e = "mf" -> MfOK(r) [] r.e = "mr" -> MrAllOK(r) [] r.e = "mrt" -> MrtOK(r) [] r.e = "mnan" -> MnanOK(r)
    [] r.e = "mfl" -> MflOK(r)
    [] OTHER -> FALSE

\* name of the violated law (evaluated for rejected lines only)
Law(r) ==
  IF r.e = "mr" THEN (IF ~MrOK(r) THEN "mgrs-mr" ELSE IF ~MrDefOK(r) THEN "mgrs-mr-defaultcenterp" ELSE "mgrs-decode")
  ELSE "mgrs-" \o r.e

Expected(r) ==
  CASE r.e = "mf" -> Forward(r.z, r.n, r.x, r.y, r.p, IF r.z # 0 /\ r.lok THEN {r.band, r.nb} ELSE {0})
    [] r.e = "mr" -> IF ~MrOK(r) THEN Reverse(Tbl, r.code, r.c) ELSE IF ~MrDefOK(r) THEN Reverse(Tbl, r.code, TRUE) ELSE DecodeSyn(r.code)
    [] r.e = "mfl" -> ForwardLat(Tbl, r.z, r.n, r.x, r.y, r.la, r.p)
    [] OTHER -> <<>>

Init == l = 1 /\ KitInit
Next == /\ l <= NT
        /\ Require(Obligation(T[l]), l, Law(T[l]), Expected(T[l]))
        /\ Consumed(l)
        /\ l' = l + 1
=============================================================================
