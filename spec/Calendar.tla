------------------------------ MODULE Calendar ------------------------------
(***************************************************************************)
(* Dates in Utility (day, date, dow, date strings, fractionalyear), written *)
(* from Utility.hpp:                                                         *)
(*   - days are numbered sequentially with 0001-01-01 as day 1;              *)
(*   - the calendar is the one of the English-speaking world: Julian up to   *)
(*     1752-09-02, which is followed by 1752-09-14 (Gregorian);              *)
(*   - dow: Sunday, Monday .. Saturday = 0, 1 .. 6;                          *)
(*   - date strings: yyyy, yyyy-mm or yyyy-mm-dd;                            *)
(*   - fractionalyear: a number is returned as it is, otherwise a date, with *)
(*     2010-01-01 giving 2010.0 and 2012-07-03 giving 2012.5.                *)
(* The day number is defined here by COUNTING (ordinals in the proleptic     *)
(* Julian and Gregorian calendars tied together at the switch-over), not by  *)
(* the month-shifting arithmetic the implementation uses.                    *)
(***************************************************************************)
EXTENDS Integers, Sequences

Greg(y, m, d) == 10000 * y + 100 * m + d >= 17520914
LeapJ(y) == y % 4 = 0
LeapG(y) == (y % 4 = 0 /\ y % 100 # 0) \/ y % 400 = 0
MonthLen(m, leap) == CASE m \in {1, 3, 5, 7, 8, 10, 12} -> 31 [] m \in {4, 6, 9, 11} -> 30 [] OTHER -> IF leap THEN 29 ELSE 28
RECURSIVE Cum(_, _)
Cum(m, leap) == IF m <= 1 THEN 0 ELSE Cum(m - 1, leap) + MonthLen(m - 1, leap)

\* ordinal of a date in the proleptic calendars, 0001-01-01 = 1
OrdJ(y, m, d) == 365 * (y - 1) + ((y - 1) \div 4) + Cum(m, LeapJ(y)) + d
OrdG(y, m, d) == 365 * (y - 1) + ((y - 1) \div 4) - ((y - 1) \div 100) + ((y - 1) \div 400) + Cum(m, LeapG(y)) + d
\* the day after Julian 1752-09-02 is Julian 1752-09-03 = Gregorian 1752-09-14
Offset == OrdJ(1752, 9, 3) - OrdG(1752, 9, 14)
Day(y, m, d) == IF Greg(y, m, d) THEN OrdG(y, m, d) + Offset ELSE OrdJ(y, m, d)

\* dates that exist
Valid(y, m, d) ==
  /\ y >= 1 /\ m \in 1..12 /\ d >= 1
  /\ d <= MonthLen(m, IF Greg(y, m, d) THEN LeapG(y) ELSE LeapJ(y))
  /\ ~(y = 1752 /\ m = 9 /\ d \in 3..13)

\* inverse: the date of day s (s >= 1)
YearOf(s) == LET y0 == (s * 400) \div 146100 IN
             CHOOSE y \in (IF y0 < 2 THEN 1 ELSE y0 - 1)..(y0 + 2) : Day(y, 1, 1) <= s /\ s < Day(y + 1, 1, 1)
First(y, m) == IF m = 13 THEN Day(y + 1, 1, 1) ELSE Day(y, m, 1)
DateOf(s) == LET y == YearOf(s)
                 m == CHOOSE k \in 1..12 : First(y, k) <= s /\ s < First(y, k + 1)
                 d0 == s - First(y, m) + 1
             IN <<y, m, IF y = 1752 /\ m = 9 /\ d0 >= 3 THEN d0 + 11 ELSE d0>>

\* 2000-01-01 was a Saturday
Dow(s) == (((s - Day(2000, 1, 1)) % 7) + 6) % 7

\* fraction of the year elapsed at the start of the day: <<numerator, denominator>>
YearFrac(y, m, d) == <<Day(y, m, d) - Day(y, 1, 1), Day(y + 1, 1, 1) - Day(y, 1, 1)>>

(* ------------------------------- date strings ---------------------------- *)
Digit(c) == c \in 48..57
AllDigits(s) == Len(s) >= 1 /\ \A i \in 1..Len(s) : Digit(s[i])
RECURSIVE Val(_)
Val(s) == IF s = <<>> THEN 0 ELSE 10 * Val(SubSeq(s, 1, Len(s) - 1)) + (s[Len(s)] - 48)
\* split at hyphens (45)
RECURSIVE Split(_)
Split(s) == LET H == {i \in 1..Len(s) : s[i] = 45} IN
            IF H = {} THEN <<s>>
            ELSE LET i == CHOOSE k \in H : \A j \in H : k <= j IN <<SubSeq(s, 1, i - 1)>> \o Split(SubSeq(s, i + 1, Len(s)))
\* <<"ok", y, m, d>> | <<"throw">>: one to three non-empty digit fields; missing month / day default to 1
ParseDate(s) ==
  LET F == Split(s) IN
  IF Len(F) \in 1..3 /\ \A i \in 1..Len(F) : AllDigits(F[i]) /\ Len(F[i]) <= 9
  THEN <<"ok", Val(F[1]), IF Len(F) >= 2 THEN Val(F[2]) ELSE 1, IF Len(F) >= 3 THEN Val(F[3]) ELSE 1>>
  ELSE <<"throw">>
\* the documented (canonical) field widths
Canonical(s) == LET F == Split(s) IN Len(F) \in 1..3 /\ Len(F[1]) = 4 /\ \A i \in 2..Len(F) : Len(F[i]) = 2

\* fractionalyear on strings of digits and hyphens: <<"num", sign, value>> | <<"date", y, m, d>> | <<"throw">>
FracYear(s) ==
  IF AllDigits(s) /\ Len(s) <= 9 THEN <<"num", 1, Val(s)>>
  ELSE IF Len(s) >= 2 /\ s[1] = 45 /\ AllDigits(Tail(s)) /\ Len(s) <= 10 THEN <<"num", -1, Val(Tail(s))>>
  ELSE LET p == ParseDate(s) IN
       IF p[1] = "ok" /\ Valid(p[2], p[3], p[4]) THEN <<"date", p[2], p[3], p[4]>> ELSE <<"throw">>

\* anchors (checked by TLC at start-up)
ASSUME Offset = 2
ASSUME Day(1, 1, 1) = 1 /\ Day(1752, 9, 2) + 1 = Day(1752, 9, 14) /\ Day(1752, 9, 14) = 639799
ASSUME Dow(Day(1752, 9, 14)) = 4 /\ Dow(Day(1752, 9, 2)) = 3 /\ Dow(Day(2026, 10, 1)) = 4 /\ Dow(1) = 6
ASSUME DateOf(639798) = <<1752, 9, 2>> /\ DateOf(639799) = <<1752, 9, 14>> /\ DateOf(1) = <<1, 1, 1>>
\* (the header's example "2012-07-03 giving 2012.5" is rounded: the exact half of 2012 is reached at the start of 2012-07-02)
ASSUME YearFrac(2010, 1, 1) = <<0, 365>> /\ YearFrac(2012, 7, 2) = <<183, 366>> /\ YearFrac(1752, 12, 31) = <<354, 355>>
ASSUME Valid(1700, 2, 29) /\ ~Valid(1800, 2, 29) /\ Valid(2000, 2, 29) /\ ~Valid(1752, 9, 3) /\ Valid(1752, 9, 30)
=============================================================================
