---------------------------- MODULE Trace_UTMUPS ----------------------------
(* Validates observations of UTMUPS (C04) against UTMUPS.tla.                 *)
EXTENDS UTMUPS, TraceKit

CONSTANTS TolRT,     \* nm: Forward o Reverse / Reverse o Forward closure ("about 5 nm" each way)
          TolEdge    \* nm: a projected point this close to a rectangle edge may be accepted or rejected
VARIABLE l

AddKm(C, km) == <<C[1] + km * 1000, C[2]>>
\* |A - B| <= tol for nanometre limbs <<metres, nm>>
NearNm(A, B, tol) ==
  LET d == A[1] - B[1] IN
  IF d > 1 \/ d < -1 THEN FALSE
  ELSE LET e == d * 1000000000 + A[2] - B[2] IN e <= tol /\ -e <= tol

\* setzone omitted: "If omitted, use the standard rules for picking the zone"
SzDefaultOK(r) == r.dout = "ok" /\ r.dzone = StdZone(r.lat, r.lon, STANDARD)[2]
SzOK(r) ==
  LET x == StdZone(r.lat, r.lon, r.s) IN
  /\ IF x[1] = "throw" THEN r.out = "throw" ELSE r.out = "ok" /\ r.zone = x[2]
  /\ SzDefaultOK(r)

\* the reported scale (units of 1e-9, rounded) where it equals the central scale factor: a UTM point exactly on the central
\* meridian of its zone (any latitude), a UPS point exactly at the pole.  Round-off of k (1e-16) cannot move the rounded value.
K0OK(r, ez) ==
  LET utmp == ez > 0 IN
  /\ (utmp /\ r.lon[2] = 0 /\ LonDeg(r.lon) = CentralMeridian(ez) => r.kq = K0e9(TRUE))
  /\ (~utmp /\ r.lat \in {<<90, 0>>, <<-90, 0>>} => r.kq = K0e9(FALSE))
\* Forward with arguments omitted: the overload without gamma, k (same setzone, mgrslimits) gives the same outcome (ov);
\* mgrslimits omitted = false and setzone omitted = STANDARD in both overloads (dflt: omitted == passed explicitly, bit for bit);
\* and the zone of the call with both omitted is the STANDARD zone of the specification.
FwdDefaultOK(r) ==
  /\ r.ov /\ r.dflt
  /\ IF LatBad(r.lat) THEN r.dout = "throw" ELSE (r.dout = "ok" => r.dzone = StdZone(r.lat, r.lon, STANDARD)[2])
  /\ (r.s = STANDARD /\ ~r.m => r.dout = r.out /\ (r.out = "ok" => r.dzone = r.zone))
FwdOK(r) ==
  LET sz == StdZone(r.lat, r.lon, r.s) IN
  /\ FwdDefaultOK(r)
  /\ IF LatBad(r.lat) \/ sz[1] = "throw" THEN r.out = "throw" /\ r.untouched
     ELSE IF sz[2] = INVALID THEN r.out = "ok" /\ r.zone = INVALID
     ELSE
       LET ez == sz[2]  np == Northp(r.lat)  utmp == ez > 0
           X == AddKm(r.tx, FalseEastingKm(utmp))
           Y == AddKm(r.ty, FalseNorthingKm(utmp, np))
           cl == RectClass(utmp, np, r.m, X, Y, TolEdge)
           good == r.out = "ok" /\ r.zone = ez /\ r.northp = np /\ NearNm(r.x, X, 2) /\ NearNm(r.y, Y, 2) /\ r.gkeq /\ K0OK(r, ez)
           bad == r.out = "throw" /\ r.untouched
       IN r.hd /\ CASE cl = "in" -> good [] cl = "out" -> bad [] OTHER -> good \/ bad

\* ov: the overload without gamma, k, same mgrslimits, same outcome; dflt: mgrslimits omitted == false passed explicitly;
\* dout: outcome class of the call with mgrslimits omitted, which is the specification's for the wide rectangle
RevOK(r) ==
  LET x == Reverse(r.z, r.n, r.x, r.y, r.m) IN
  /\ r.ov /\ r.dflt /\ r.dout = Reverse(r.z, r.n, r.x, r.y, FALSE)[1]
  /\ CASE x[1] = "ok" -> r.out = "ok" /\ r.range
       [] x[1] = "throw" -> r.out = "throw" /\ r.untouched
       [] x[1] = "nan" -> r.out = "nan"

ZsOK(r) ==
  LET x == DecodeZone(r.code) IN
  IF x[1] = "throw" THEN r.out = "throw" /\ r.untouched
  ELSE r.out = "ok" /\ r.zone = x[2] /\ r.northp = x[3]
\* out2/z2/n2: the library's own string decoded by the library ("This reverses UTMUPS::DecodeZone");
\* dout/dcode: abbrev omitted = true
ZeOK(r) ==
  LET x == EncodeZone(r.z, r.n, r.a)
      d == EncodeZone(r.z, r.n, TRUE) IN
  /\ IF x[1] = "throw" THEN r.out = "throw"
     ELSE r.out = "ok" /\ r.code = x[2] /\ r.out2 = "ok" /\ r.z2 = r.z /\ (r.z # INVALID => r.n2 = r.n)
  /\ IF d[1] = "throw" THEN r.dout = "throw" ELSE r.dout = "ok" /\ r.dcode = d[2]
EpsgdOK(r) == LET x == DecodeEPSG(r.epsg) IN r.out = "ok" /\ r.zone = x[1] /\ r.northp = x[2]
EpsgeOK(r) == r.out = "ok" /\ r.epsg = EncodeEPSG(r.z, r.n)

\* random geographic point: forward, reverse, plumbing
RtOK(r) ==
  /\ (r.s = STANDARD => r.out = "ok")
  /\ r.out \in {"ok", "throw"}
  /\ r.out = "ok" =>
       /\ r.zone = r.ez /\ r.northp = r.north /\ r.zone \in 0..60
       /\ (r.s >= 0 => r.zone = r.s)
       /\ (r.s = UTMZ => r.zone >= 1)
       /\ r.rout = "ok" /\ r.back >= 0 /\ r.back <= TolRT
       \* convergence is recovered only where longitude is well conditioned (away from the poles)
       /\ r.dgam >= 0 /\ (r.latq <= 89900000 /\ r.latq >= -89900000 => r.dgam <= 1000)   \* 1e-9 degree
       /\ r.dk >= 0 /\ r.dk <= 1000000           \* 1e-9
       /\ r.plx >= 0 /\ r.plx <= 2 /\ r.ply >= 0 /\ r.ply <= 2 /\ r.gkeq

GrOK(r) ==
  LET utmp == r.z > 0
      cl == RectClass(utmp, r.n, r.m, r.x, r.y, 0)
      clf == RectClass(utmp, r.n, FALSE, r.x, r.y, TolEdge)
  IN IF cl = "out" THEN r.out = "throw"
     ELSE /\ r.out = "ok" /\ r.latok
          /\ (r.fout = "ok" /\ r.z2 = r.z /\ r.err >= 0 /\ r.err <= TolRT) \/ (r.fout = "throw" /\ clf = "edge")

TrOK(r) ==
  /\ r.f0 = "ok"
  /\ r.out = r.ref
  /\ (r.out = "ok" => r.zo = r.zr /\ r.err >= 0 /\ r.err <= TolRT /\ (r.zout >= 0 => r.zo = r.zout)
                       /\ (r.zout = MATCH => r.zo = r.zin))          \* MATCH: "the coordinate already includes zone information, use that"
  /\ (r.out = "throw" => r.untouched)
  /\ r.out \in {"ok", "throw"}

\* lattice Transfer (see MC_UTMUPS!VecTr): zone exactly (set TransferZones), UPS never changes hemisphere, outputs
\* untouched on a throw, coordinates equal Reverse then Forward in the output zone to the closure tolerance.
\* ref/hm/zr/err: the driver's Reverse o Forward(setzone = zr) with zr = the specification's zone (r.ez, recomputed here)
\* or, on a zone edge, the zone returned; hm = that point is a UPS point of the hemisphere opposite to nout.
TrlOK(r) ==
  IF r.f0 # "ok" THEN r.f0 = "throw" /\ r.out = "none"    \* the point has no coordinates in zone sin: nothing to transfer
  ELSE
    /\ r.zin = r.sin
    /\ IF r.zout < -4 \/ r.zout > 60 THEN r.out = "throw" /\ r.untouched
       ELSE IF r.zout = INVALID THEN r.out = "ok" /\ r.zo = INVALID
       ELSE LET Z == TransferZones(r.zin, r.zout, r.lat, r.lon)
                one == Cardinality(Z) = 1
            IN /\ (IF one THEN r.ez \in Z ELSE r.ez = -99)
               /\ r.out \in {"ok", "throw"}
               /\ (r.out = "ok" => /\ r.zo \in Z /\ r.zr = r.zo
                                   /\ (r.zo = UPS => r.nout = Northp(r.lat))
                                   /\ r.ref = "ok" /\ ~r.hm /\ r.err >= 0 /\ r.err <= TolRT)
               /\ (r.out = "throw" => r.untouched /\ (one => r.ref = "throw" \/ r.hm))

NanfOK(r) == r.out = "ok" /\ (IF r.w = 0 THEN r.zone # INVALID /\ ~r.allnan ELSE r.zone = INVALID /\ r.allnan)
\* NaN latitude (w odd) and / or longitude (w >= 2) with a requested zone sz: never an error; the coordinates are NaN, and so are
\* the convergence and scale where they depend on the NaN argument (in UPS the convergence depends on the longitude only and the
\* scale on the latitude only); the zone is INVALID ("NaN input yields the INVALID zone") or, for sz >= 0, the requested zone
\* ("use that zone if it is non-negative") - both are documented
NanzOK(r) ==
  /\ r.out = "ok" /\ r.xn /\ r.yn
  /\ (r.zone = INVALID \/ (r.sz >= 0 /\ r.zone = r.sz))
  /\ (r.has => IF r.zone = 0 THEN (r.w >= 2 => r.gn) /\ (r.w % 2 = 1 => r.kn) ELSE r.gn /\ r.kn)
NanrOK(r) == r.out = "ok" /\ r.allnan

Obligation(r) ==
  CASE r.e = "sz" -> SzOK(r) [] r.e = "fwd" -> FwdOK(r) [] r.e = "rev" -> RevOK(r)
    [] r.e = "zs" -> ZsOK(r) [] r.e = "ze" -> ZeOK(r) [] r.e = "epsgd" -> EpsgdOK(r) [] r.e = "epsge" -> EpsgeOK(r)
    [] r.e = "rt" -> RtOK(r) [] r.e = "gr" -> GrOK(r) [] r.e = "tr" -> TrOK(r) [] r.e = "trl" -> TrlOK(r)
    [] r.e = "nanf" -> NanfOK(r) [] r.e = "nanr" -> NanrOK(r) [] r.e = "nanz" -> NanzOK(r)
    [] OTHER -> FALSE

Expected(r) ==
  CASE r.e = "sz" -> StdZone(r.lat, r.lon, r.s)
    [] r.e = "fwd" -> StdZone(r.lat, r.lon, r.s)
    [] r.e = "rev" -> Reverse(r.z, r.n, r.x, r.y, r.m)
    [] r.e = "zs" -> DecodeZone(r.code)
    [] r.e = "ze" -> EncodeZone(r.z, r.n, r.a)
    [] r.e = "trl" -> IF r.zout < -4 \/ r.zout > 60 THEN <<"throw">> ELSE <<"zones", TransferZones(r.sin, r.zout, r.lat, r.lon)>>
    [] OTHER -> <<>>

Init == l = 1 /\ KitInit
Next == /\ l <= NT
        /\ Require(Obligation(T[l]), l, "utm-" \o T[l].e, Expected(T[l]))
        /\ Consumed(l)
        /\ l' = l + 1
=============================================================================
