INIT Init
NEXT Next
POSTCONDITION Summary
CHECK_DEADLOCK FALSE
