#!/usr/bin/env python3
"""Summarise REJECT lines of the last run of a check: tools/rejsum.py C04 [quick]"""
import sys, glob, json, collections, os
sys.path.insert(0, os.path.dirname(os.path.abspath(__file__)))
import vlib
pid = sys.argv[1]; tier = sys.argv[2] if len(sys.argv) > 2 else 'quick'
d = os.path.join(vlib.OUT, '%s-%s' % (pid, tier))
c = collections.Counter(); ex = collections.defaultdict(list)
for tf in sorted(glob.glob(d + '/trace*.ndjson')):
    lines = open(tf).read().splitlines()
    shards = sorted(glob.glob(tf + '.shard*[0-9]'), key=lambda x: int(x.split('shard')[-1])) or [tf]
    off = 0
    H = int(os.environ.get('HEADER', '0'))
    for sf in shards:
        n = sum(1 for _ in open(sf)) if sf != tf else len(lines)
        lg = sf + '.tlc.log'
        if os.path.exists(lg):
            for r in vlib.parse_rejects(open(lg).read(), off):
                c[r['law']] += 1
                if len(ex[r['law']]) < int(os.environ.get('N', '4')):
                    ex[r['law']].append((r['line'], r['info'][:200], lines[r['line'] - 1][:700]))
        off += n - int(os.environ.get('HEADER', '0')) if sf != shards[0] or True else n
print(c)
for k, v in ex.items():
    for e in v:
        print(k, e[0], 'expected', e[1]); print('    ', e[2])
