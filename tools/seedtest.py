#!/usr/bin/env python3
"""Run a check against a seeded defect in a scratch worktree (never in /repo).
   tools/seedtest.py C18 /path/patch.diff [--tier quick] [--keep]
Exit code = exit code of the check (1 expected = caught)."""
import os, subprocess, sys, tempfile, shutil
V = os.path.dirname(os.path.dirname(os.path.abspath(__file__)))
pid, patch = sys.argv[1], os.path.abspath(sys.argv[2])
tier = sys.argv[sys.argv.index('--tier') + 1] if '--tier' in sys.argv else 'quick'
wt = tempfile.mkdtemp(prefix='sw-%s-' % pid, dir='/tmp')
os.rmdir(wt)
subprocess.run(['git', '-C', '/repo', 'worktree', 'add', '-q', '--detach', wt, 'HEAD'], check=True)
try:
    r = subprocess.run(['git', '-C', wt, 'apply', patch])
    if r.returncode != 0:
        print('PATCH DOES NOT APPLY'); sys.exit(3)
    env = dict(os.environ, VERIF_REPO=wt, VERIF_OUT=wt + '-out', VERIF_EVID=wt + '-out/evidence')
    p = subprocess.run([os.path.join(V, 'check'), pid, '--tier', tier], env=env, stdout=subprocess.PIPE,
                       stderr=subprocess.PIPE, universal_newlines=True)
    viol = [l for l in p.stdout.splitlines() if l.startswith('VIOLATION')]
    print('exit=%d violations=%d' % (p.returncode, len(viol)))
    lines = p.stdout.splitlines()
    for i, l in enumerate(lines[:8]):
        print('  ' + l[:300])
    if p.returncode == 2:
        print(p.stderr[-1500:])
    sys.exit(p.returncode)
finally:
    subprocess.run(['git', '-C', '/repo', 'worktree', 'remove', '--force', wt])
    if '--keep' not in sys.argv:
        shutil.rmtree(wt + '-out', ignore_errors=True)
