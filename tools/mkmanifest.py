#!/usr/bin/env python3
"""Regenerates MANIFEST.json from the table below (single source of truth for the checks registered)."""
import json, os, sys
V = os.path.dirname(os.path.dirname(os.path.abspath(__file__)))
sys.path.insert(0, os.path.join(V, 'props'))
sys.path.insert(0, os.path.join(V, 'tools'))
import importlib

ALL = ['C%02d' % i for i in range(1, 21)]
READY = set(open(os.path.join(V, 'tools', 'ready.txt')).read().split())
checks, na = [], []
for pid in ALL:
    p = os.path.join(V, 'props', pid + '.py')
    if not os.path.exists(p) or pid not in READY:
        na.append(dict(property_id=pid, reason='check not built yet in this revision of /verif (planned, see DESIGN.md section 4)'))
        continue
    m = importlib.import_module(pid)
    if getattr(m, 'NOT_APPLICABLE', None):
        na.append(dict(property_id=pid, reason=m.NOT_APPLICABLE))
        continue
    c = dict(property_id=pid,
             quick_cmd='./check %s --tier quick' % pid,
             thorough_cmd='./check %s --tier thorough' % pid,
             evidence_file='/verif/evidence/%s.json' % pid,
             replay_cmd_template='./check %s --replay {path}' % pid,
             engine='tlc',
             level_claimed=dict(category=m.LEVEL, text=m.LEVEL_TEXT, design_ref=m.DESIGN_REF),
             level_note=m.LEVEL_NOTE,
             technique=m.TECHNIQUE)
    checks.append(c)
man = dict(
    version=1,
    setup_cmd='./setup.sh',
    hooks=dict(guard='GEOGRAPHICLIB_VERIF',
               enable='checks compile /repo/src/*.cpp and the headers of the current working tree with -DGEOGRAPHICLIB_VERIF '
                      '(tools/vlib.py build_lib); no hook is currently needed: every abstract state is observable through the public API',
               baseline_off_cmd='cmake --build /repo/_build -j16 && ctest --test-dir /repo/_build -j8 --timeout 900',
               source_commits=[], add_only=True),
    engines=[dict(name='tlc', path='/opt/veriftools/tla/tla2tools.jar', serves_properties=[c['property_id'] for c in checks],
                  kind_free_text='TLC model checker: exhaustive lattice/state-graph models (MC_*), behaviour emission, '
                                 'and non-blocking trace validation (Trace_*) of ndjson observations of the real library')],
    checks=checks,
    not_applicable=na,
    notes='See DESIGN.md. Exit 2 of a check = framework/tool failure (never a VIOLATION). known_findings.json lists fixed/known defects.')
json.dump(man, open(os.path.join(V, 'MANIFEST.json'), 'w'), indent=1)
print('MANIFEST: %d checks, %d not_applicable' % (len(checks), len(na)))
