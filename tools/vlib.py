"""Common kit for the /verif checks: build cache, TLC runner, behaviour
extraction, trace validation, known-findings matching, evidence writer.

Nothing here decides a property: accept/reject decisions are taken by TLC
evaluating the TLA+ modules under /verif/spec.  This file only moves data.
"""
import concurrent.futures as cf
import fcntl
import glob
import hashlib
import json
import os
import random
import re
import shutil
import subprocess
import sys
import time

VERIF = os.path.dirname(os.path.dirname(os.path.abspath(__file__)))
REPO = os.environ.get('VERIF_REPO', '/repo')
SPEC = os.path.join(VERIF, 'spec')
HARNESS = os.path.join(VERIF, 'harness')
OUT = os.environ.get('VERIF_OUT', os.path.join(VERIF, 'out'))
BUILD = os.environ.get('VERIF_BUILD', os.path.join(VERIF, '.build'))
EVID = os.environ.get('VERIF_EVID', os.path.join(VERIF, 'evidence'))
NCPU = int(os.environ.get('VERIF_JOBS', os.cpu_count() or 4))
GUARD = 'GEOGRAPHICLIB_VERIF'


class FrameworkError(Exception):
    """Tool failure (exit 2): never reported as a VIOLATION."""


def log(*a):
    print('[verif]', *a, file=sys.stderr, flush=True)


def sh(cmd, **kw):
    return subprocess.run(cmd, stdout=subprocess.PIPE, stderr=subprocess.STDOUT,
                          universal_newlines=True, **kw)


# --------------------------------------------------------------------------
# build cache
# --------------------------------------------------------------------------
FLAVOURS = {
    'plain': dict(cxx='g++', flags=['-O2', '-std=c++17', '-fno-fast-math',
                                    '-ffp-contract=off']),
    'san': dict(cxx='clang++', flags=['-O1', '-g', '-std=c++17',
                                      '-fsanitize=address,undefined',
                                      '-fno-sanitize-recover=undefined',
                                      '-fno-omit-frame-pointer',
                                      # libstdc++ annotates std::vector for ASan: an access inside the spare capacity
                                      # of a vector is reported (library and drivers are compiled with the same flags)
                                      '-D_GLIBCXX_SANITIZE_VECTOR',
                                      '-ffp-contract=off']),
    'tsan': dict(cxx='clang++', flags=['-O1', '-g', '-std=c++17',
                                       '-fsanitize=thread',
                                       '-ffp-contract=off']),
}

CONFIG_H = """#define GEOGRAPHICLIB_VERSION_STRING "2.5"
#define GEOGRAPHICLIB_VERSION_MAJOR 2
#define GEOGRAPHICLIB_VERSION_MINOR 5
#define GEOGRAPHICLIB_VERSION_PATCH 0
#define GEOGRAPHICLIB_DATA "/usr/local/share/GeographicLib"
#define GEOGRAPHICLIB_HAVE_LONG_DOUBLE 1
#define GEOGRAPHICLIB_WORDS_BIGENDIAN 0
#define GEOGRAPHICLIB_PRECISION 2
#if !defined(GEOGRAPHICLIB_SHARED_LIB)
#define GEOGRAPHICLIB_SHARED_LIB 0
#endif
"""


def _hash_files(files, extra=''):
    h = hashlib.sha256(extra.encode())
    for f in sorted(files):
        h.update(f.encode())
        with open(f, 'rb') as fh:
            h.update(fh.read())
    return h.hexdigest()[:20]


def repo_sources():
    srcs = sorted(glob.glob(os.path.join(REPO, 'src', '*.cpp')))
    hdrs = sorted(glob.glob(os.path.join(REPO, 'include', 'GeographicLib', '*.hpp')) +
                  glob.glob(os.path.join(REPO, 'include', 'GeographicLib', '*.h')) +
                  glob.glob(os.path.join(REPO, 'src', '*.hh')) +
                  glob.glob(os.path.join(REPO, 'src', '*.hpp')))
    return srcs, hdrs


class Lock:
    def __init__(self, path):
        self.path = path

    def __enter__(self):
        os.makedirs(os.path.dirname(self.path), exist_ok=True)
        self.fh = open(self.path, 'w')
        fcntl.flock(self.fh, fcntl.LOCK_EX)
        return self

    def __exit__(self, *a):
        fcntl.flock(self.fh, fcntl.LOCK_UN)
        self.fh.close()


def _prune(prefix, keep):
    """Remove old cached builds, keeping the newest `keep` (at least 4) and everything used within the last two hours, so that
    checks running concurrently on different source trees (seed tests) cannot remove each other's build."""
    keep = max(keep, 4)
    ds = sorted(glob.glob(os.path.join(BUILD, prefix + '*')), key=os.path.getmtime)
    ds = [d for d in ds if os.path.isdir(d)]
    now = time.time()
    for d in ds[:-keep]:
        try:
            if now - os.path.getmtime(d) > 7200:
                shutil.rmtree(d, ignore_errors=True)
        except OSError:
            pass


def build_lib(flavour='plain'):
    """Build /repo/src/*.cpp of the CURRENT working tree into a static library.
    Returns (libpath, [include dirs], libhash)."""
    fl = FLAVOURS[flavour]
    srcs, hdrs = repo_sources()
    if not srcs:
        raise FrameworkError('no sources under %s/src' % REPO)
    hsh = _hash_files(srcs + hdrs, ' '.join([fl['cxx']] + fl['flags']) + CONFIG_H)
    d = os.path.join(BUILD, 'lib-%s-%s' % (flavour, hsh))
    lib = os.path.join(d, 'libgeo.a')
    inc = [os.path.join(d, 'include'), os.path.join(REPO, 'include')]
    with Lock(os.path.join(BUILD, 'lib-%s.lock' % flavour)):
        if os.path.exists(lib):
            os.utime(d)
            return lib, inc, hsh
        t0 = time.time()
        shutil.rmtree(d, ignore_errors=True)
        os.makedirs(os.path.join(d, 'include', 'GeographicLib'))
        os.makedirs(os.path.join(d, 'obj'))
        with open(os.path.join(d, 'include', 'GeographicLib', 'Config.h'), 'w') as f:
            f.write(CONFIG_H)
        base = [fl['cxx']] + fl['flags'] + ['-D' + GUARD, '-I' + inc[0], '-I' + inc[1], '-c']

        def comp(s):
            o = os.path.join(d, 'obj', os.path.basename(s)[:-4] + '.o')
            r = sh(base + [s, '-o', o])
            return s, o, r
        objs = []
        with cf.ThreadPoolExecutor(NCPU) as ex:
            for s, o, r in ex.map(comp, srcs):
                if r.returncode != 0:
                    shutil.rmtree(d, ignore_errors=True)
                    raise FrameworkError('compile failed: %s\n%s' % (s, r.stdout[-3000:]))
                objs.append(o)
        r = sh(['ar', 'rcs', lib + '.tmp'] + objs)
        if r.returncode != 0:
            raise FrameworkError('ar failed: ' + r.stdout)
        os.rename(lib + '.tmp', lib)
        shutil.rmtree(os.path.join(d, 'obj'), ignore_errors=True)
        log('built lib[%s] %s in %.1fs' % (flavour, hsh, time.time() - t0))
        _prune('lib-%s-' % flavour, 2)
    return lib, inc, hsh


def build_driver(name, flavour='plain', extra_flags=(), extra_src=(), libs=()):
    """Compile harness/<name>.cpp (+extra_src) against the library of the current tree."""
    fl = FLAVOURS[flavour]
    lib, inc, lhash = build_lib(flavour)
    src = [os.path.join(HARNESS, name + '.cpp')] + list(extra_src)
    common = sorted(glob.glob(os.path.join(HARNESS, 'common', '*.hpp')))
    hsh = _hash_files(src + common, lhash + ' '.join(extra_flags) + ' '.join(libs))
    d = os.path.join(BUILD, 'drv-%s-%s-%s' % (name, flavour, hsh))
    exe = os.path.join(d, name)
    with Lock(os.path.join(BUILD, 'drv-%s-%s.lock' % (name, flavour))):
        if os.path.exists(exe):
            os.utime(d)
            return exe
        os.makedirs(d, exist_ok=True)
        cmd = ([fl['cxx']] + fl['flags'] + ['-D' + GUARD] + list(extra_flags) +
               ['-I' + i for i in inc] + ['-I' + os.path.join(HARNESS, 'common'),
                                          '-I' + os.path.join(REPO, 'src')] +
               src + [lib, '-lpthread'] + list(libs) + ['-o', exe + '.tmp'])
        t0 = time.time()
        r = sh(cmd)
        if r.returncode != 0:
            shutil.rmtree(d, ignore_errors=True)
            raise FrameworkError('driver compile failed: %s\n%s' % (name, r.stdout[-4000:]))
        os.rename(exe + '.tmp', exe)
        log('built driver %s[%s] in %.1fs' % (name, flavour, time.time() - t0))
        _prune('drv-%s-%s-' % (name, flavour), 2)
    return exe


def build_tool(tool, flavour='plain'):
    """Compile /repo/tools/<tool>.cpp (a command-line utility) against the library."""
    fl = FLAVOURS[flavour]
    lib, inc, lhash = build_lib(flavour)
    src = os.path.join(REPO, 'tools', tool + '.cpp')
    hsh = _hash_files([src], lhash)
    d = os.path.join(BUILD, 'tool-%s-%s-%s' % (tool, flavour, hsh))
    exe = os.path.join(d, tool)
    with Lock(os.path.join(BUILD, 'tool-%s-%s.lock' % (tool, flavour))):
        if os.path.exists(exe):
            os.utime(d)
            return exe
        os.makedirs(d, exist_ok=True)
        man = os.path.join(REPO, 'man')
        cmd = ([fl['cxx']] + fl['flags'] + ['-D' + GUARD] + ['-I' + i for i in inc] +
               ['-I' + man, '-I' + os.path.join(REPO, '_build', 'man'), '-I/repo/_build/man', src, lib, '-o', exe + '.tmp'])
        r = sh(cmd)
        if r.returncode != 0:
            shutil.rmtree(d, ignore_errors=True)
            raise FrameworkError('tool compile failed: %s\n%s' % (tool, r.stdout[-4000:]))
        os.rename(exe + '.tmp', exe)
        _prune('tool-%s-%s-' % (tool, flavour), 2)
    return exe


# --------------------------------------------------------------------------
# TLC
# --------------------------------------------------------------------------
TLC_JAR = '/opt/veriftools/tla/tla2tools.jar:/opt/veriftools/tla/CommunityModules-deps.jar'
_tlc_seq = [0]


class TLCResult:
    def __init__(self, rc, out, wall):
        self.rc, self.out, self.wall = rc, out, wall
        m = re.search(r'(\d+) states generated, (\d+) distinct states found', out)
        self.generated = int(m.group(1)) if m else 0
        self.distinct = int(m.group(2)) if m else 0
        m = re.search(r'depth of the complete state graph search is (\d+)', out)
        self.depth = int(m.group(1)) if m else 0
        self.ok = (rc == 0 and 'No error has been found' in out) or \
                  (rc == 0 and 'Finished in' in out and 'Error:' not in out)

    def printed_json(self):
        """Values emitted with PrintT(ToJson(v)) -> list of python values (deduplicated, ordered)."""
        seen, res = set(), []
        for ln in self.out.splitlines():
            if ln.startswith('"') and ln.endswith('"') and len(ln) > 2:
                if ln in seen:
                    continue
                seen.add(ln)
                try:
                    res.append(json.loads(json.loads(ln)))
                except ValueError:
                    pass
        return res

    def coverage(self):
        """action -> (distinct, taken) from -coverage output (best effort)."""
        cov = {}
        for m in re.finditer(r'^<(\w+) line [^>]*>: (\d+):(\d+)', self.out, re.M):
            cov[m.group(1)] = (int(m.group(2)), int(m.group(3)))
        return cov


def _tlc_slot():
    """Machine-wide limit on concurrently running TLC processes (several checks may run at once, each with 16 trace
    shards): take one of NCPU + 8 lock files, waiting if all are held.  One check alone never waits.  Best effort: any
    error means no limit."""
    import fcntl
    try:
        d = os.environ.get('VERIF_SLOTS', '/tmp/verif-tlc-slots')
        os.makedirs(d, exist_ok=True)
        n = (os.cpu_count() or 16) + 8
        start = (os.getpid() * 7 + _tlc_seq[0]) % n
        waited = 0.0
        while waited < 7200:
            for i in range(n):
                fd = os.open(os.path.join(d, 'slot%d' % ((start + i) % n)), os.O_CREAT | os.O_RDWR, 0o666)
                try:
                    fcntl.flock(fd, fcntl.LOCK_EX | fcntl.LOCK_NB)
                    return fd
                except OSError:
                    os.close(fd)
            time.sleep(0.25)
            waited += 0.25
    except Exception:
        pass
    return None


def tlc(module, cfg=None, workers=None, env=None, timeout=1800, simulate=None,
        depth=None, seed=None, coverage=False, heap='8g', extra=(), deque=False,
        keep_out=None):
    """Run TLC on spec/<module>.tla with spec/<cfg>.cfg.  Returns TLCResult."""
    _tlc_seq[0] += 1
    md = os.path.join(OUT, 'tlc', '%d-%d-%s' % (os.getpid(), _tlc_seq[0], module))
    shutil.rmtree(md, ignore_errors=True)
    os.makedirs(md)
    jopts = ['-XX:+UseParallelGC', '-Xmx' + heap, '-Xss64m']
    if deque:
        jopts.append('-Dtlc2.tool.queue.IStateQueue=StateDeque')
    cmd = ['timeout', str(timeout), 'java'] + jopts + ['-cp', TLC_JAR, 'tlc2.TLC',
           '-metadir', md, '-noGenerateSpecTE',
           '-workers', str(workers if workers else 'auto'),
           '-config', cfg if (cfg and os.path.isabs(cfg)) else os.path.join(SPEC, (cfg or module) + '.cfg')]
    if simulate:
        cmd += ['-simulate', 'num=%d' % simulate]
    if depth:
        cmd += ['-depth', str(depth)]
    if seed is not None:
        cmd += ['-seed', str(seed)]
    if coverage:
        cmd += ['-coverage', '1']
    cmd += list(extra) + [os.path.join(SPEC, module + '.tla')]
    e = dict(os.environ)
    e.pop('JAVA_TOOL_OPTIONS', None)
    if env:
        e.update({k: str(v) for k, v in env.items()})
    slot = _tlc_slot()
    t0 = time.time()
    try:
        p = subprocess.run(cmd, stdout=subprocess.PIPE, stderr=subprocess.STDOUT, env=e,
                           universal_newlines=True, cwd=SPEC, errors='replace')
    finally:
        if slot is not None:
            os.close(slot)
    shutil.rmtree(md, ignore_errors=True)
    res = TLCResult(p.returncode, p.stdout, time.time() - t0)
    if keep_out:
        with open(keep_out, 'w') as f:
            f.write(p.stdout)
    if p.returncode == 124:
        raise FrameworkError('TLC timeout on %s/%s' % (module, cfg))
    return res


def _lbl(cfg):
    return os.path.basename(cfg)[:-4] if cfg.endswith('.cfg') else os.path.basename(cfg)


def tlc_fail_excerpt(res, n=40):
    lines = [l for l in res.out.splitlines()
             if not l.startswith(('Semantic processing', 'Parsing file', 'Linting of'))]
    return '\n'.join(lines[-n:])


# --------------------------------------------------------------------------
# Check context
# --------------------------------------------------------------------------
class Ctx:
    def __init__(self, pid, tier, seed, level):
        self.pid, self.tier, self.seed, self.level = pid, tier, seed, level
        self.rng = random.Random(seed)
        self.t0 = time.time()
        self.dir = os.path.join(OUT, '%s-%s' % (pid, tier))
        shutil.rmtree(self.dir, ignore_errors=True)
        os.makedirs(self.dir)
        self.cov = dict(states=0, transitions=0, traces_validated_against_impl=0,
                        evaluations=0, distinct_nontrivial=0, samples=[], models={},
                        laws={}, trace_lines=0, behaviours_replayed=0)
        self.violations = []     # (what, replay path)
        self.known = []          # strings
        self.assumptions = []
        self.notes = []
        self.known_db = load_known()
        self.quick = tier == 'quick'

    # ---- paths
    def path(self, name):
        return os.path.join(self.dir, name)

    def cfg(self, name, text):
        """Write a TLC configuration generated from a template (constants chosen by tier)."""
        p = self.path(name + '.cfg')
        with open(p, 'w') as f:
            f.write(text)
        return p

    # ---- model checking of a lattice / state-graph model
    def model_check(self, module, cfg=None, env=None, workers=None, timeout=3000,
                    min_distinct=1, simulate=None, depth=None, coverage=False, heap='8g'):
        res = tlc(module, cfg, workers=workers, env=env, timeout=timeout, simulate=simulate,
                  depth=depth, seed=self.seed if simulate else None, coverage=coverage,
                  heap=heap, keep_out=self.path('mc-%s.log' % _lbl(cfg or module)))
        if not res.ok or (not simulate and res.distinct < min_distinct):
            raise FrameworkError('model %s/%s: TLC did not succeed (rc=%d)\n%s' %
                                 (module, cfg, res.rc, tlc_fail_excerpt(res)))
        self.cov['states'] += res.distinct
        self.cov['transitions'] += res.generated
        self.cov['models'][_lbl(cfg or module)] = dict(distinct=res.distinct, generated=res.generated,
                                                 depth=res.depth, wall_s=round(res.wall, 1))
        log('MC %s: %d generated / %d distinct, %.1fs' % (_lbl(cfg or module), res.generated,
                                                          res.distinct, res.wall))
        return res

    # ---- behaviour emission (Gen): returns list of python values
    def generate(self, module, cfg, env=None, workers=None, timeout=3000, simulate=None,
                 depth=None, heap='8g', count_states=True):
        res = tlc(module, cfg, workers=workers, env=env, timeout=timeout, simulate=simulate,
                  depth=depth, seed=self.seed if simulate else None, heap=heap,
                  keep_out=None)
        if not res.ok and not simulate:
            with open(self.path('gen-%s.log' % _lbl(cfg)), 'w') as f:
                f.write(res.out)
            raise FrameworkError('gen %s/%s: TLC did not succeed (rc=%d)\n%s' %
                                 (module, cfg, res.rc, tlc_fail_excerpt(res)))
        if simulate and res.rc not in (0,):
            # simulation mode ends by num= limit with rc 0; anything else is a tool failure
            raise FrameworkError('gen(sim) %s/%s rc=%d\n%s' % (module, cfg, res.rc,
                                                               tlc_fail_excerpt(res)))
        vals = res.printed_json()
        if count_states:
            self.cov['states'] += res.distinct
            self.cov['transitions'] += res.generated
        self.cov['models'][_lbl(cfg)] = dict(distinct=res.distinct, generated=res.generated,
                                       emitted=len(vals), wall_s=round(res.wall, 1))
        log('GEN %s: %d behaviours/vectors, %.1fs' % (_lbl(cfg), len(vals), res.wall))
        return vals

    # ---- run a driver
    def drive(self, exe, args, infile=None, outfile=None, timeout=3000, env=None, ok_rc=(0,)):
        e = dict(os.environ)
        e['ASAN_OPTIONS'] = 'detect_leaks=0:abort_on_error=0:exitcode=97'
        e['UBSAN_OPTIONS'] = 'print_stacktrace=1:halt_on_error=1:exitcode=98'
        if env:
            e.update(env)
        fin = open(infile, 'rb') if infile else subprocess.DEVNULL
        fout = open(outfile, 'wb') if outfile else subprocess.DEVNULL
        errp = (outfile or self.path('drv')) + '.stderr'
        with open(errp, 'wb') as ferr:
            try:
                p = subprocess.run(['timeout', str(timeout), exe] + [str(a) for a in args],
                                   stdin=fin, stdout=fout, stderr=ferr, env=e)
            finally:
                if infile:
                    fin.close()
                if outfile:
                    fout.close()
        if p.returncode not in ok_rc:
            tail = open(errp, 'r', errors='replace').read()[-3000:]
            return p.returncode, tail
        return p.returncode, ''

    # ---- trace validation; returns (consumed, rejects)
    def validate(self, module, cfg, tracefile, shards=1, env=None, timeout=3000, heap='6g',
                 group_key='Reset', header=0):
        nlines = sum(1 for _ in open(tracefile, 'rb'))
        if nlines == 0:
            raise FrameworkError('empty trace %s' % tracefile)
        files = [tracefile]
        offsets = [0]
        if shards > 1 and nlines > 2000:
            files, offsets = split_trace(tracefile, shards, group_key, header)

        def one(i):
            e = dict(env or {})
            e['TRACE'] = files[i]
            return tlc(module, cfg, workers=1, env=e, timeout=timeout, heap=heap,
                       keep_out=files[i] + '.tlc.log')
        with cf.ThreadPoolExecutor(min(len(files), NCPU)) as ex:
            results = list(ex.map(one, range(len(files))))
        consumed, rejects = 0, []
        for i, res in enumerate(results):
            m = re.search(r'"SUMMARY", (\d+), (\d+)', res.out)
            if not m:
                raise FrameworkError('trace validation %s/%s failed to complete on %s\n%s' %
                                     (module, cfg, files[i], tlc_fail_excerpt(res)))
            c, nrej = int(m.group(1)), int(m.group(2))
            consumed += c
            rj = parse_rejects(res.out, offsets[i])
            if len(rj) != nrej:
                raise FrameworkError('reject count mismatch (%d printed, %d counted) in %s' %
                                     (len(rj), nrej, files[i]))
            rejects += rj
            self.cov['states'] += res.distinct
            self.cov['transitions'] += res.generated
        if consumed != nlines + header * (len(files) - 1):
            raise FrameworkError('trace %s: %d of %d lines consumed' % (tracefile, consumed, nlines))
        self.cov['trace_lines'] += nlines
        log('TRACE %s on %s: %d lines, %d rejects, %.1fs' %
            (_lbl(cfg), os.path.basename(tracefile), nlines, len(rejects),
             max(r.wall for r in results)))
        return consumed, rejects

    # ---- verdict handling
    def law(self, name, n=1):
        self.cov['laws'][name] = self.cov['laws'].get(name, 0) + n

    def report_rejects(self, rejects, tracefile, describe=None, max_report=20):
        """rejects: list of dict(line=, law=, info=).  Matches known findings, writes replay."""
        if not rejects:
            return
        lines = open(tracefile, 'r', errors='replace').read().splitlines()
        n = 0
        for r in rejects:
            ln = r['line']
            rec = {}
            try:
                rec = json.loads(lines[ln - 1])
            except Exception:
                pass
            kf = match_known(self.known_db, self.pid, r, rec)
            if kf:
                msg = 'KNOWN-FINDING: property=%s %s' % (self.pid, kf['what'])
                if msg not in self.known:
                    self.known.append(msg)
                continue
            n += 1
            if n > max_report:
                continue
            rp = self.path('replay-%s-%d.ndjson' % (os.path.basename(tracefile), ln))
            # replay = ops since last Reset up to the rejected line
            start = ln - 1
            while start > 0 and '"Reset"' not in lines[start]:
                start -= 1
                if ln - start > 2000:
                    break
            with open(rp, 'w') as f:
                f.write(json.dumps({'e': 'ReplayHeader', 'property': self.pid, 'law': r['law'],
                                    'info': r['info'], 'trace': tracefile, 'line': ln}) + '\n')
                for l in lines[start:ln]:
                    f.write(l + '\n')
            self.violations.append(('%s: %s %s' % (r['law'], r['info'], lines[ln - 1][:300]), rp))

    def violation(self, what, replay_lines):
        rp = self.path('replay-%d.ndjson' % (len(self.violations) + 1))
        with open(rp, 'w') as f:
            for l in replay_lines:
                f.write((l if isinstance(l, str) else json.dumps(l)) + '\n')
        self.violations.append((what, rp))

    def sample(self, s, cap=12):
        if len(self.cov['samples']) < cap:
            self.cov['samples'].append(s)

    def finish(self, rule, trusted=()):
        wall = time.time() - self.t0
        c = self.cov
        if c['evaluations'] == 0:
            c['evaluations'] = c['trace_lines'] + c['behaviours_replayed']
        c['rule'] = rule
        c['trusted_base'] = list(trusted)
        ev = dict(property_id=self.pid, tier=self.tier, seed=self.seed, level=self.level,
                  coverage=c, assumptions=self.assumptions, wall_s=round(wall, 1),
                  violations=len(self.violations), known_findings=self.known,
                  notes=self.notes)
        os.makedirs(EVID, exist_ok=True)
        tmp = os.path.join(EVID, self.pid + '.json.tmp')
        with open(tmp, 'w') as f:
            json.dump(ev, f, indent=1, default=str)
        os.rename(tmp, os.path.join(EVID, self.pid + '.json'))
        for k in self.known:
            print(k)
        for what, rp in self.violations[:50]:
            print('VIOLATION property=%s replay=%s' % (self.pid, rp))
            print('  ' + what[:600])
        sys.stdout.flush()
        log('%s %s done in %.1fs: %d violation(s), %d known' %
            (self.pid, self.tier, wall, len(self.violations), len(self.known)))
        return 1 if self.violations else 0


def split_trace(tracefile, shards, group_key, header=0):
    """Split an ndjson trace into ~shards files (at lines containing group_key when given).
    The first `header` lines are repeated at the top of every shard.  Returns (files, offsets) where
    global line number = offset + line number within the shard."""
    lines = open(tracefile, 'rb').read().splitlines(True)
    hdr, body = lines[:header], lines[header:]
    n = len(body)
    target = max(1000, n // shards + 1)
    files, offsets = [], []
    start, k = 0, 0
    key = ('"%s"' % group_key).encode() if group_key else None
    while start < n:
        end = min(n, start + target)
        while key and end < n and key not in body[end]:
            end += 1
        fn = '%s.shard%d' % (tracefile, k)
        with open(fn, 'wb') as f:
            f.writelines(hdr)
            f.writelines(body[start:end])
        files.append(fn)
        offsets.append(start)          # shard line l (l > header) is global line start + l
        start = end
        k += 1
    return files, offsets


def parse_rejects(out, offset=0):
    """Reject lines are printed by TraceKit!Reject as PrintT(ToJson(<<"REJECT", l, law, info>>))."""
    rej = []
    for ln in out.splitlines():
        if ln.startswith('"[\\"REJECT\\"'):
            try:
                v = json.loads(json.loads(ln))
                rej.append(dict(line=int(v[1]) + offset, law=str(v[2]), info=json.dumps(v[3])))
            except Exception:
                rej.append(dict(line=offset + 1, law='unparsed', info=ln))
    return rej


# --------------------------------------------------------------------------
# known findings
# --------------------------------------------------------------------------
def load_known():
    p = os.path.join(VERIF, 'known_findings.json')
    if not os.path.exists(p):
        return []
    return json.load(open(p)).get('findings', [])


def match_known(db, pid, rej, rec):
    """A finding matches when status == known, property matches, and every (field, regex) of
    its 'match' dict matches the corresponding field of the rejected trace record (or law)."""
    for k in db:
        if k.get('status') != 'known' or pid not in k.get('properties', [k.get('property')]):
            continue
        ok = True
        for fld, rx in k.get('match', {}).items():
            v = rej.get('law') if fld == '_law' else rec.get(fld)
            if v is None or not re.search(rx, v if isinstance(v, str) else json.dumps(v)):
                ok = False
                break
        if ok:
            return k
    return None


# --------------------------------------------------------------------------
# helpers for writing driver inputs
# --------------------------------------------------------------------------
def write_lines(path, rows):
    with open(path, 'w') as f:
        for r in rows:
            if isinstance(r, (list, tuple)):
                f.write(' '.join(_tok(x) for x in r) + '\n')
            else:
                f.write(str(r) + '\n')


def _tok(x):
    if isinstance(x, bool):
        return '1' if x else '0'
    if isinstance(x, (list, tuple)):
        return ' '.join(_tok(y) for y in x)
    return str(x)


def main(argv=None):
    import argparse
    import importlib
    ap = argparse.ArgumentParser()
    ap.add_argument('prop')
    ap.add_argument('--tier', default=os.environ.get('VERIF_TIER', 'quick'),
                    choices=['quick', 'thorough'])
    ap.add_argument('--seed', type=int, default=int(os.environ.get('VERIF_SEED', '1')))
    ap.add_argument('--replay')
    a = ap.parse_args(argv)
    sys.path.insert(0, os.path.join(VERIF, 'props'))
    os.makedirs(OUT, exist_ok=True)
    try:
        mod = importlib.import_module(a.prop)
        ctx = Ctx(a.prop, a.tier, a.seed, mod.LEVEL)
        if a.replay:
            rc = mod.replay(ctx, a.replay)
        else:
            rc = mod.run(ctx)
        sys.exit(rc)
    except FrameworkError as e:
        print('FRAMEWORK-ERROR %s: %s' % (a.prop, e), file=sys.stderr)
        sys.exit(2)


# --------------------------------------------------------------------------
# the standard M1/M2/M3 pipeline for function-like subsystems
# --------------------------------------------------------------------------
def lattice_pipeline(ctx, mc_module, parts, to_rows, driver, replay_args, record_args,
                     trace_module, trace_cfg=None, flavour_record=None, min_vectors=100, header=0,
                     parallel_gen=True, gen_workers=None, trace_env=None, drv_flags=(), drv_libs=()):
    """parts: list of (label, cfg_text).  Each MC run checks the model invariants and emits vectors
    (INVARIANT Emit).  Vectors are replayed on the real library; the replay trace and a seeded random
    trace are validated line by line by TLC.  Returns (rows, trace files)."""
    exe = build_driver(driver, 'plain', extra_flags=drv_flags, libs=drv_libs)
    exe_rec = build_driver(driver, flavour_record, extra_flags=drv_flags, libs=drv_libs) if flavour_record else exe

    def gen(p):
        label, text = p
        cfg = ctx.cfg('%s_%s' % (mc_module, label), text)
        return ctx.generate(mc_module, cfg, workers=gen_workers or (max(2, NCPU // len(parts)) if parallel_gen else NCPU),
                            timeout=3000, heap='6g')
    if parallel_gen and len(parts) > 1:
        with cf.ThreadPoolExecutor(len(parts)) as ex:
            allv = list(ex.map(gen, parts))
    else:
        allv = [gen(p) for p in parts]
    vals = [v for part in allv for v in part]
    if len(vals) < min_vectors:
        raise FrameworkError('too few vectors emitted: %d' % len(vals))
    rows = to_rows(vals)
    vin = ctx.path('vectors.txt')
    write_lines(vin, rows)
    ctx.cov['behaviours_replayed'] += len(rows)
    traces = []
    trace = ctx.path('trace.ndjson')
    rc, err = ctx.drive(exe, replay_args, infile=vin, outfile=trace)
    if rc != 0:
        ctx.violation('driver crashed replaying lattice vectors (rc=%d): %s' % (rc, err[-600:]),
                      [{'e': 'ReplayHeader', 'property': ctx.pid, 'law': 'no-crash', 'vectors': vin}])
        return rows, traces
    traces.append(trace)
    if record_args is not None:
        rt = ctx.path('trace-rt.ndjson')
        rc, err = ctx.drive(exe_rec, record_args, outfile=rt)
        if rc != 0:
            ctx.violation('driver crashed on seeded random records (rc=%d): %s' % (rc, err[-600:]),
                          [{'e': 'ReplayHeader', 'property': ctx.pid, 'law': 'no-crash', 'seed': ctx.seed}])
            return rows, traces
        traces.append(rt)
    for tf in traces:
        n, rej = ctx.validate(trace_module, trace_cfg or trace_module, tf, shards=NCPU, group_key=None,
                              env=trace_env, header=header)
        ctx.cov['traces_validated_against_impl'] += 1
        ctx.report_rejects(rej, tf)
        with open(tf) as f:
            lines = f.readlines()
        step = max(1, len(lines) // 5)
        for i in range(0, len(lines), step):
            ctx.sample(lines[i].strip()[:400])
    ctx.cov['distinct_nontrivial'] += len(rows)
    return rows, traces
