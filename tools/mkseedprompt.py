#!/usr/bin/env python3
"""tools/mkseedprompt.py C04 E [focus text]  -> creates the scratch worktree /tmp/wt-C04-E and prints the prompt for an independent
seeding sub-agent (property text only; nothing from /verif)."""
import json, os, subprocess, sys
V = os.path.dirname(os.path.dirname(os.path.abspath(__file__)))
pid, var = sys.argv[1], sys.argv[2]
focus = sys.argv[3] if len(sys.argv) > 3 else ''
p = [json.loads(l) for l in open(V + '/properties.jsonl') if json.loads(l)['id'] == pid][0]
wt = '/tmp/wt-%s-%s' % (pid, var)
if not os.path.exists(wt):
    subprocess.run(['git', '-C', '/repo', 'worktree', 'add', '-q', '--detach', wt, 'HEAD'], check=True)
out = '/tmp/seed-%s/%s' % (pid, var)
os.makedirs(out, exist_ok=True)
txt = {k: p[k] for k in ('id', 'title', 'statement', 'quantifier', 'why_tests_cant', 'anchors')}
print('''You are a software engineer helping to evaluate a verification effort for the C++ library GeographicLib.  Your job is to
write ONE realistic defect ("seeded change") in the library that breaks the property below, and a demonstration.

You have your own scratch git worktree of the library at %(wt)s (offline machine, no network).  Work ONLY inside %(wt)s and
%(out)s.  Do not read or write anything under /verif or /repo, and do not look at other directories under /tmp: the
value of your change lies in its independence.

## The property (this text is all you are given)
```json
%(prop)s
```

## What to produce
A change to the library sources (src/, include/GeographicLib/, tools/) in %(wt)s such that
1. the library still compiles and the repository's own test suite still passes with the change:
   `cd %(wt)s && cmake -G Ninja -B _build -DCMAKE_BUILD_TYPE=Release . && cmake --build _build -j6 && cmake --build _build --target testprograms -j6 && ctest --test-dir _build -j6 --timeout 900`
   must end with "100%% tests passed, 0 tests failed out of 194";
2. the property, as stated above and as documented in the headers, is violated for some input / sequence of
   operations / state / schedule;
3. it looks like a mistake a maintainer could plausibly make or accept in review (a refactoring slip, a boundary
   comparison, a stale variable, an optimisation that is wrong in a corner, two sites that each look fine alone), not
   sabotage, and it is small (a few lines);
4. it needs something SPECIFIC to manifest - a multi-step sequence of operations, an unusual but legal input region,
   a particular object state or configuration, a rarely used overload or option, two cooperating sites - rather than
   something ordinary use would expose at once.  %(focus)s
   Avoid the most obvious place; prefer behaviour the property covers but that is easy to overlook.
A demonstration `demo.cpp` (single file, C++17, uses only the public API, links against the library; exit status 0 and a
line starting with PASS when the property holds on what it tries, exit status 1 and FAIL lines when not) that FAILS with
your change and PASSES on the unchanged library.  It is compiled like this:
   `g++ -O1 -std=c++17 -I<tree>/include -I<tree>/_build/include demo.cpp -L<tree>/_build/src -lGeographicLib -Wl,-rpath,<tree>/_build/src -lpthread -o demo`
Check both: build the unchanged tree first (keep a copy of the unchanged library build, e.g. build into _build_ref before
editing), then your change.

## Deliver (exactly these files)
* `%(out)s/patch.diff`  - `git -C %(wt)s diff` of your change (sources only; no build output)
* `%(out)s/demo.cpp`
* `%(out)s/notes.md`    - which clause is broken, what exactly is needed for it to manifest, the ctest result line with the
  change, the demo's output with and without the change.
When done, delete the build directories in %(wt)s (`rm -rf %(wt)s/_build %(wt)s/_build_ref`), leave the worktree itself, and
reply with a five-line summary.
''' % dict(wt=wt, out=out, prop=json.dumps(txt, indent=1), focus=focus))
