#!/bin/bash
# tools/process_seed.sh C18 C   -> confirm the seed in a scratch worktree, then run the quick check against it
pid=$1; var=$2
cd "$(dirname "$0")/.."
python3 tools/confirm_seed.py $pid $var > /tmp/confirm-$pid-$var.log 2>&1
if grep -q '"confirmed": true' /tmp/confirm-$pid-$var.log; then
  PAR=1 python3 tools/seedall.py $pid-$var 2>&1 | tail -1
else
  echo "$pid-$var NOT CONFIRMED"; grep -E '"exit"|tests|apply' /tmp/confirm-$pid-$var.log | head -8
fi
