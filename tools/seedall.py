#!/usr/bin/env python3
"""Run every confirmed seeded defect under /verif/seeded against the quick check of the property it breaks
(in scratch worktrees) and record the outcome in seeded/<id>/meta.json and seeded/RESULTS.md.
   tools/seedall.py [ids...]"""
import json, os, subprocess, sys, glob, concurrent.futures as cf
V = os.path.dirname(os.path.dirname(os.path.abspath(__file__)))
ids = sys.argv[1:] or sorted(os.path.basename(d) for d in glob.glob(V + '/seeded/C*'))
def one(sid):
    d = os.path.join(V, 'seeded', sid)
    meta = json.load(open(d + '/meta.json'))
    pid = meta['property']
    if not os.path.exists(os.path.join(V, 'props', pid + '.py')):
        return sid, None, 'no check yet'
    p = subprocess.run([sys.executable, V + '/tools/seedtest.py', pid, d + '/patch.diff'], stdout=subprocess.PIPE,
                       stderr=subprocess.STDOUT, universal_newlines=True)
    first = [l for l in p.stdout.splitlines() if l.strip() and not l.startswith('exit=')]
    meta['check_result'] = dict(check='./check %s --tier quick' % pid, exit=p.returncode,
                                caught=p.returncode == 1, first_lines=[l[:300] for l in first[:3]])
    json.dump(meta, open(d + '/meta.json', 'w'), indent=1)
    return sid, p.returncode, (first[1][:160] if len(first) > 1 else '')
with cf.ThreadPoolExecutor(int(os.environ.get('PAR', '2'))) as ex:
    res = list(ex.map(one, ids))
rows = []
for sid in sorted(os.path.basename(d) for d in glob.glob(V + '/seeded/C*')):
    m = json.load(open(os.path.join(V, 'seeded', sid, 'meta.json')))
    cr = m.get('check_result')
    if m.get('disputed'):
        rows.append('| %s | %s | not a violation of the property as documented (see meta.json: disputed) | |' % (sid, m['property']))
        continue
    if m.get('neutralised_by'):
        rows.append('| %s | %s | neutralised by fix %s (see meta.json) | |' % (sid, m['property'], m['neutralised_by']))
        continue
    rows.append('| %s | %s | %s | %s |' % (sid, m['property'], 'caught (exit 1)' if cr and cr['caught'] else ('MISSED (exit %s)' % cr['exit'] if cr else 'not run'),
                                         (cr['first_lines'][1] if cr and len(cr['first_lines']) > 1 else '').replace('|', '/')[:140]))
open(os.path.join(V, 'seeded', 'RESULTS.md'), 'w').write('| seed | property | quick check | first rejected observation |\n|---|---|---|---|\n' + '\n'.join(rows) + '\n')
for r in res: print(r)
