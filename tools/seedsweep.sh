#!/bin/bash
# tools/seedsweep.sh "C04 C05 ..." "101 102 ..." [tier]   - unchanged-tree robustness sweep over seeds (one check at a time)
# prints one line per run: id seed exit wall_s violations known
cd "$(dirname "$0")/.."
tier=${3:-quick}
for id in $1; do
  for s in $2; do
    t0=$(date +%s)
    out=$(VERIF_SEED=$s timeout 3000 ./check $id --tier $tier 2>/tmp/sweep-err-$$.txt); rc=$?
    t1=$(date +%s)
    nv=$(printf '%s\n' "$out" | grep -c '^VIOLATION')
    nk=$(printf '%s\n' "$out" | grep -c '^KNOWN-FINDING')
    echo "SWEEP $id seed=$s tier=$tier exit=$rc wall=$((t1-t0)) violations=$nv known=$nk"
    if [ $rc -ne 0 ]; then printf '%s\n' "$out" | grep -v '^KNOWN' | head -20; tail -5 /tmp/sweep-err-$$.txt; fi
  done
done
rm -f /tmp/sweep-err-$$.txt
