#!/usr/bin/env python3
"""Independently confirm a seeded defect produced by a sub-agent, then file it under /verif/seeded/<id>/.
   tools/confirm_seed.py C18 A   (reads /tmp/seed-C18/A/{patch.diff,demo.cpp,notes.md})
Confirms in a scratch worktree (never /repo): patch applies, library + tests build, 194/194 tests pass with
the change, demo FAILS with the change, demo PASSES against the unchanged /repo build."""
import json, os, shutil, subprocess, sys, tempfile, time
V = os.path.dirname(os.path.dirname(os.path.abspath(__file__)))
pid, var = sys.argv[1], sys.argv[2]
src = '/tmp/seed-%s/%s' % (pid, var)
sid = '%s-%s' % (pid, var)
def sh(cmd, **kw):
    return subprocess.run(cmd, shell=True, stdout=subprocess.PIPE, stderr=subprocess.STDOUT, universal_newlines=True, errors='replace', **kw)
wt = tempfile.mkdtemp(prefix='cs-%s-' % sid, dir='/tmp'); os.rmdir(wt)
sh('git -C /repo worktree add -q --detach %s HEAD' % wt)
meta = dict(id=sid, property=pid, confirmed=False, ran=[])
try:
    r = sh('git -C %s apply %s/patch.diff' % (wt, src)); meta['ran'].append(('git apply', r.returncode))
    if r.returncode: raise SystemExit('patch does not apply')
    r = sh('cd %s && cmake -G Ninja -B _build -DCMAKE_BUILD_TYPE=Release . >/dev/null && cmake --build _build -j8 2>&1 | tail -2 && cmake --build _build --target testprograms -j8 2>&1 | tail -1 && ctest --test-dir _build -j8 --timeout 900 2>&1 | tail -3' % wt)
    meta['ctest_with_change'] = [l for l in r.stdout.splitlines() if 'tests passed' in l or 'tests failed' in l]
    ok_tests = any('100% tests passed, 0 tests failed out of 194' in l for l in r.stdout.splitlines())
    lib = [f for f in os.listdir(wt + '/_build/src') if f.startswith('libGeographicLib') and f.endswith('.so')]
    r = sh('g++ -O1 -std=c++17 -I%s/include -I%s/_build/include %s/demo.cpp -L%s/_build/src -lGeographicLib -Wl,-rpath,%s/_build/src -lpthread -o %s/demo_mut' % (wt, wt, src, wt, wt, wt))
    if r.returncode: meta['ran'].append(('demo compile (mut)', r.stdout[-500:]))
    r1 = sh('%s/demo_mut' % wt, timeout=600)
    meta['demo_with_change'] = dict(exit=r1.returncode, tail=r1.stdout[-400:])
    r = sh('g++ -O1 -std=c++17 -I/repo/include -I/repo/_build/include %s/demo.cpp -L/repo/_build/src -lGeographicLib -Wl,-rpath,/repo/_build/src -lpthread -o %s/demo_ref' % (src, wt))
    r2 = sh('%s/demo_ref' % wt, timeout=600)
    meta['demo_without_change'] = dict(exit=r2.returncode, tail=r2.stdout[-200:])
    meta['confirmed'] = bool(ok_tests and r1.returncode != 0 and r2.returncode == 0)
finally:
    sh('git -C /repo worktree remove --force %s' % wt)
    shutil.rmtree(wt, ignore_errors=True)
dst = os.path.join(V, 'seeded', sid)
if meta['confirmed']:
    os.makedirs(dst, exist_ok=True)
    for f in ('patch.diff', 'demo.cpp', 'notes.md'):
        shutil.copy(os.path.join(src, f), dst)
    meta['breaks'] = pid
    meta['needs'] = 'see notes.md (written by the sub-agent that produced the change)'
    meta['confirmed_at'] = time.strftime('%Y-%m-%dT%H:%M:%S')
    json.dump(meta, open(os.path.join(dst, 'meta.json'), 'w'), indent=1)
print(json.dumps(meta, indent=1)[:1500])
