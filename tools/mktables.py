#!/usr/bin/env python3
"""Regenerate the as-built tables of DESIGN.md (between the markers <!-- TABLES:BEGIN --> and <!-- TABLES:END -->)
from evidence/*.json, seeded/*/meta.json, mutants/ and props/*.py."""
import glob, importlib.util, json, os, re
V = os.path.dirname(os.path.dirname(os.path.abspath(__file__)))
rows = []
for pid in ['C%02d' % i for i in range(1, 21)]:
    ev = {}
    f = os.path.join(V, 'evidence', pid + '.json')
    if os.path.exists(f):
        ev = json.load(open(f)).get('coverage', {})
    src = open(os.path.join(V, 'props', pid + '.py')).read()
    if pid in ('C01', 'C02', 'C03'):
        src += open(os.path.join(V, 'props', 'geod_common.py')).read()
    mods = sorted(set(re.findall(r"'((?:MC|Trace)_[A-Za-z]+)'", src)))
    seeds = []
    for d in sorted(glob.glob(os.path.join(V, 'seeded', pid + '-*'))):
        m = json.load(open(d + '/meta.json'))
        cr = m.get('check_result')
        tag = os.path.basename(d)[4:]
        if m.get('disputed'):
            seeds.append(tag + ':disputed')
        elif m.get('neutralised_by'):
            seeds.append(tag + ':neutralised')
        elif cr:
            seeds.append(tag + (':caught' if cr['caught'] else ':MISSED'))
        else:
            seeds.append(tag + ':?')
    nm = len(glob.glob(os.path.join(V, 'mutants', pid + '-*.patch')))
    rows.append('| %s | %s | %s | %s | %s | %s | %s |' % (pid, ' '.join(mods), ev.get('states', '?'), ev.get('behaviours_replayed', '?'),
                                                    ev.get('trace_lines', '?'), ' '.join(seeds) or '-', nm or '-'))
tab = ('| id | TLC modules run by the check | TLC states (quick) | vectors / behaviours replayed | trace lines validated | seeded defects | builder mutants (all caught) |\n'
       '|---|---|---|---|---|---|---|\n' + '\n'.join(rows) + '\n')
p = os.path.join(V, 'DESIGN.md')
s = open(p).read()
a, b = '<!-- TABLES:BEGIN -->', '<!-- TABLES:END -->'
i, j = s.index(a), s.index(b)
s = s[:i + len(a)] + '\n' + tab + s[j:]
open(p, 'w').write(s)
print(tab)
