#!/usr/bin/env python3
"""Regenerate the as-built tables of DESIGN.md (between the markers <!-- TABLES:BEGIN --> and <!-- TABLES:END -->)
from evidence/*.json, seeded/*/meta.json, mutants/ and props/*.py."""
import glob, importlib.util, json, os, re
V = os.path.dirname(os.path.dirname(os.path.abspath(__file__)))
rows = []
for pid in ['C%02d' % i for i in range(1, 21)]:
    ev = {}
    f = os.path.join(V, 'evidence', pid + '.json')
    if os.path.exists(f):
        ev = json.load(open(f)).get('coverage', {})
    src = open(os.path.join(V, 'props', pid + '.py')).read()
    if pid in ('C01', 'C02', 'C03'):
        src += open(os.path.join(V, 'props', 'geod_common.py')).read()
    mods = sorted(set(re.findall(r"'((?:MC|Trace)_[A-Za-z]+)'", src)))
    seeds = []
    for d in sorted(glob.glob(os.path.join(V, 'seeded', pid + '-*'))):
        m = json.load(open(d + '/meta.json'))
        cr = m.get('check_result')
        tag = os.path.basename(d)[4:]
        if m.get('disputed'):
            seeds.append(tag + ':disputed')
        elif m.get('neutralised_by'):
            seeds.append(tag + ':neutralised')
        elif cr:
            seeds.append(tag + (':caught' if cr['caught'] else ':MISSED'))
        else:
            seeds.append(tag + ':?')
    nm = len(glob.glob(os.path.join(V, 'mutants', pid + '-*.patch')))
    rows.append('| %s | %s | %s | %s | %s | %s | %s |' % (pid, ' '.join(mods), ev.get('states', '?'), ev.get('behaviours_replayed', '?'),
                                                    ev.get('trace_lines', '?'), ' '.join(seeds) or '-', nm or '-'))
tab = ('| id | TLC modules run by the check | TLC states (quick) | vectors / behaviours replayed | trace lines validated | seeded defects | builder mutants (all caught) |\n'
       '|---|---|---|---|---|---|---|\n' + '\n'.join(rows) + '\n')
p = os.path.join(V, 'DESIGN.md')
s = open(p).read()
a, b = '<!-- TABLES:BEGIN -->', '<!-- TABLES:END -->'
i, j = s.index(a), s.index(b)
s = s[:i + len(a)] + '\n' + tab + s[j:]
open(p, 'w').write(s)
print(tab)

# findings lists (section 9.1 / 9.2) from known_findings.json
k = json.load(open(os.path.join(V, 'known_findings.json')))['findings']
fixed = [x for x in k if x['status'] == 'fixed']
known = [x for x in k if x['status'] == 'known']
def line(x):
    w = x['what']
    w = re.sub(r'^fixed: property=C\d+ ([0-9a-f]{7} )?', '', w)
    return '* %s(%s) %s' % (('`%s` ' % x['commit']) if x.get('commit') else '', ', '.join(x['properties']), w)
txt = ('### 9.1 Repaired in /repo (%d commits; `fixed:` entries of known_findings.json)\n\n' % len(fixed) + '\n'.join(line(x) for x in fixed) +
       '\n\n### 9.2 Recorded as known findings (%d; reported as KNOWN-FINDING lines, exit 0)\n\n'
       'These were not repaired because the repair is not small and safe (accuracy\nloss that needs a reformulated algorithm, behaviour pinned by an existing\n'
       'test, or an interface decision for the maintainer).\n\n' % len(known) + '\n'.join(line(x) for x in known) + '\n')
s2 = open(p).read()
a, b = '<!-- FINDINGS:BEGIN -->', '<!-- FINDINGS:END -->'
if a in s2:
    i, j = s2.index(a), s2.index(b)
    s2 = s2[:i + len(a)] + '\n' + txt + s2[j:]
    open(p, 'w').write(s2)
print(len(fixed), 'fixed', len(known), 'known')
